"""C15: an exchange is complete or fails; a reply is never credited to another request."""
import struct

import kproto
from caselib import build_cluster
from val import T, dumps
from props.common import boot_ops, brokers, host, pm

SLICE = "KafkaConnection send / read_exact over the injected stream, request-reply pairing (Connections pool, __send_receive, __send_noack, fetch_metadata)"
RULE = ("small exchanges (fetch_offsets of one topic, produce with acks 1 and 0, commit with cached and with fresh coordinator, metadata load) on a "
        "1-2 broker cluster under fault plans: (a) uniform write_chunk = 1..len(request frame)+1 and read_chunk = 1..len(reply frame)+1 "
        "(thorough: every size for every exchange; quick: every size for the offsets exchange, boundary + seeded sizes for the others); "
        "(b) seeded random per-I/O-index splits of writes and reads; (c) a fault at every I/O call index of the exchange (unchunked, and chunked "
        "so that the frame takes several writes/reads): write error / interrupted / zero bytes accepted / short write, read end-of-stream / time-out / "
        "error / interrupted / short read; (d) time-out on the first read followed by a different call on the same connection; (e) refused connects; "
        "every case is followed by 1-2 further calls on the same client. non-trivial = the call under test needed more than one write or more than two reads, "
        "or met an injected fault")
ASSUMPTIONS = ["a request of the client is recognised in the raw event trace as the data of the first write call of a send (the later write calls of the same send "
               "carry the not yet accepted suffix)",
               "the reference broker answers every complete well-formed request frame exactly once and in order on the connection it arrived on"]
EXHAUSTIVE = False

T1 = b"t1"
G = b"g"
KINDS = ("offsets", "produce1", "produce0", "commit", "commit_fresh", "metadata")
# error kinds are those the model's I/O error type distinguishes: eof, writezero, timeout, refused, other
FAULT_PAIRS = [(["fail", "other"], "eof"), ("intr", ["fail", "timeout"]), (0, ["fail", "other"]), (3, "intr"), (["fail", "timeout"], 1)]


def cluster_spec(nb=1, leader=1, coord=1):
    return {"brokers": brokers(nb), "topics": {T1: [leader]},
            "logs": {(T1, 0): [("plain", 2, None, b"a"), ("plain", 3, None, b"b"), ("plain", 4, b"k", b"c")]},
            "log_start": {(T1, 0): 2}, "committed": {G: {(T1, 0): 3}}, "coordinator": {G: coord}}


def call(kind, which=0):
    if kind == "offsets":
        return T("fetch_offsets", [[T1], T("latest" if which == 0 else "earliest")])
    if kind == "produce1":
        return T("produce_messages", [1, 1, 0, [pm(T1, 0, b"k", b"v%d" % which)]])
    if kind == "produce0":
        return T("produce_messages", [0, 1, 0, [pm(T1, 0, b"k", b"w%d" % which)]])
    if kind in ("commit", "commit_fresh"):
        return T("commit_offsets", [G, [T("co", [T1, 0, 4 + which])]])
    if kind == "metadata":
        return T("load_metadata", [[T1]]) if which == 0 else T("load_metadata_all")
    raise ValueError(kind)


def exchange_lengths(kind):
    """[(request frame length, reply frame length)] of the exchanges of one call, computed with the reference codec"""
    cl = build_cluster(cluster_spec())
    ps = []
    if kind == "offsets":
        ps.append(kproto.encode_request("offsets", 0, 1, b"", {"replica_id": -1, "topics": [{"topic": T1, "partitions": [{"partition": 0, "time": -1, "max_offsets": 1}]}]}))
    elif kind in ("produce1", "produce0"):
        ms = kproto.encode_message(0, b"k", b"v0")
        ps.append(kproto.encode_request("produce", 0, 1, b"", {"acks": 1 if kind == "produce1" else 0, "timeout": 1000,
                                                               "topics": [{"topic": T1, "partitions": [{"partition": 0, "message_set": ms}]}]}))
    elif kind in ("commit", "commit_fresh"):
        if kind == "commit_fresh":
            ps.append(kproto.encode_request("group_coordinator", 0, 1, b"", {"group": G}))
        ps.append(kproto.encode_request("offset_commit", 1, 1, b"", {"group": G, "generation_id": -1, "member_id": b"",
                                                                      "topics": [{"topic": T1, "partitions": [{"partition": 0, "offset": 4, "timestamp": -1, "metadata": b""}]}]}))
    else:
        ps.append(kproto.encode_request("metadata", 0, 1, b"", {"topics": [T1]}))
    out = []
    for p in ps:
        reply = cl.handle(host(1), p)
        out.append((4 + len(p), (4 + len(reply)) if reply is not None else 0))
    return out


def frame_lengths(kind):
    ls = exchange_lengths(kind)
    return max(a for a, _ in ls), max(b for _, b in ls)


def io_calls(kind, w=None, r=None):
    """number of write/read calls of the call under uniform chunking"""
    n = 0
    for lreq, lrep in exchange_lengths(kind):
        n += -(-lreq // w) if w else 1
        if lrep:
            n += (-(-4 // r) + -(-(lrep - 4) // r)) if r else 2
    return n


def make_case(rng, kind, plan, nfollow=None, follow=None, nb=None, which=0, tag=""):
    nb = nb or rng.choice([1, 1, 2])
    faulty = tag in ("fault", "late_reply", "connect_fail")
    leader = rng.randint(1, nb)
    coord = leader if rng.random() < 0.6 else rng.randint(1, nb)
    spec = cluster_spec(nb, leader, coord)
    ops = boot_ops(spec) + [T("set_group_offset_storage", [1])]
    if kind == "commit":
        ops.append(T("fetch_group_topic_offset", [G, T1]))      # caches the coordinator
    # (commit_fresh: the lookup goes to "any" pooled connection; with a single pooled connection the choice does not depend on
    # the client's HashMap order, which the correspondence run can only learn from requests that reached a broker)
    if kind not in ("metadata", "commit_fresh") and rng.random() < 0.5:
        ops.append(call("offsets", 1))                          # the leader's connection exists already
    first = len(ops)
    ops.append({"op": call(kind, which), "plan": plan})
    chunk_only = {k: v for k, v in (plan or {}).items() if k in ("write_chunk", "read_chunk")} or None
    if follow is None:
        follow = []
        for _ in range(nfollow if nfollow is not None else rng.randint(1, 2)):
            fk = rng.choice(["offsets", "offsets", "produce1", "produce0", "commit", "metadata"])
            if fk == "commit" and kind not in ("commit", "commit_fresh") and (nb > 1 or faulty):
                # a fresh lookup over several pooled connections (see the remark on commit_fresh above; on a connection that is out of
                # step a foreign reply read as a coordinator answer names a garbage host, which adds a second pooled connection)
                fk = "produce1"
            follow.append((fk, 1 if (fk == kind or fk == "offsets") and which == 0 else rng.randint(0, 1) if fk != "metadata" else 0))
    for fk, w in follow:
        ops.append({"op": call(fk, w), "plan": chunk_only if rng.random() < 0.5 else None})
    return {"cluster": spec, "ops": ops, "meta": {"kind": kind, "first": first, "tag": tag, "plan": plan}}


def make_refused_case(rng):
    """a call that is refused while its request is being encoded (a topic / group name longer than a protocol string can hold): nothing is
    written; the calls that follow on the same connection must each hand over exactly their own request and read their own reply"""
    nb = rng.choice([1, 1, 2])
    leader = rng.randint(1, nb)
    spec = cluster_spec(nb, leader, leader)
    ops = boot_ops(spec) + [T("set_group_offset_storage", [1])]
    if rng.random() < 0.6:
        ops.append(call("offsets", 1))
    first = len(ops)
    long_name = b"x" * rng.choice([32768, 40000])
    ops.append({"op": rng.choice([T("load_metadata", [[long_name]]), T("load_metadata", [[T1, long_name]]),
                                  T("fetch_group_topic_offset", [long_name, T1])])})
    for _ in range(rng.randint(2, 3)):
        fk = rng.choice(["offsets", "produce1", "produce0", "metadata", "metadata"])
        ops.append({"op": call(fk, rng.randint(0, 1) if fk != "metadata" else rng.randint(0, 1))})
    return {"cluster": spec, "ops": ops, "meta": {"kind": "refused", "first": first, "tag": "refused_encode", "plan": None}}


T2 = b"t2"


def make_case2(rng, idx, wf, rf, order, acks=1):
    spec = {"brokers": brokers(2), "topics": {T1: [1], T2: [2]},
            "logs": {(T1, 0): [("plain", 2, None, b"a"), ("plain", 3, None, b"b"), ("plain", 4, b"k", b"c")], (T2, 0): []},
            "log_start": {(T1, 0): 2}, "committed": {G: {(T1, 0): 3}}, "coordinator": {G: 1}}
    ops = boot_ops(spec) + [T("set_group_offset_storage", [1])]
    if rng.random() < 0.5:
        ops.append(T("fetch_offsets", [[T1, T2], T("latest")]))     # both connections exist already
    first = len(ops)
    recs_ = [pm(T1, 0, b"k", b"x0"), pm(T2, 0, None, b"y0")]
    plan = {}
    if wf is not None:
        plan = {"write": {idx: wf}, "read": {idx: rf}}
    ops.append({"op": T("produce_messages", [acks, 1, 0, recs_ if order == 0 else recs_[::-1]]), "plan": plan or None})
    for k in range(2):
        ops.append(T("produce_messages", [1, 1, 0, [pm(T1, 0, b"k", b"x%d" % (k + 1))]]))
        ops.append(T("produce_messages", [1, 1, 0, [pm(T2, 0, None, b"y%d" % (k + 1))]]))
    ops.append(T("fetch_offsets", [[T1], T("earliest")]))
    return {"cluster": spec, "ops": ops, "meta": {"kind": "produce2", "first": first, "tag": "two_broker" if acks else "two_broker_noack", "plan": plan}}


def make_poll_case(rng, plan, tag):
    """the same faults under Consumer::poll: the layer above the client must not turn a failed exchange into a (empty) success"""
    spec = cluster_spec(1, 1, 1)
    ops = boot_ops(spec) + [T("consumer_build", [T("from_client"), [T("with_topic", [T1]), T("with_fallback_offset", [T("earliest")])]])]
    first = len(ops)
    ops.append({"op": T("poll"), "plan": plan})
    return {"cluster": spec, "ops": ops, "meta": {"kind": "poll", "first": first, "tag": tag, "plan": plan}}


def gen(rng, tier):
    cases = []
    quick = tier == "quick"
    # (a) uniform chunking
    for kind in KINDS:
        lreq, lrep = frame_lengths(kind)
        ws = list(range(1, lreq + 2))
        rs = list(range(1, lrep + 2)) if lrep else []
        if quick and kind != "offsets":
            ws = sorted(set([1, 2, 3, 4, 5, lreq - 1, lreq, lreq + 1] + rng.sample(ws, 4)))
            rs = sorted(set([1, 2, 3, 4, 5, lrep - 1, lrep, lrep + 1] + rng.sample(rs, 4))) if rs else []
        if kind == "commit_fresh" and quick:
            ws, rs = ws[:6], rs[:6]
        for w in ws:
            cases.append(make_case(rng, kind, {"write_chunk": w}, tag="write_chunk"))
        for r in rs:
            cases.append(make_case(rng, kind, {"read_chunk": r}, tag="read_chunk"))
        for _ in range(6 if quick else 300):
            cases.append(make_case(rng, kind, {"write_chunk": rng.randint(1, lreq), "read_chunk": rng.randint(1, max(1, lrep))}, tag="both_chunk"))
    # (b) random per-index splits
    for _ in range(150 if quick else 12000):
        kind = rng.choice(KINDS)
        n = rng.choice([4, 8, 16, 40])
        hi = rng.choice([1, 2, 5, 9, 30])
        plan = {"write": {i: rng.randint(1, hi) for i in range(n) if rng.random() < 0.8},
                "read": {i: rng.randint(1, hi) for i in range(n) if rng.random() < 0.8}}
        cases.append(make_case(rng, kind, plan, tag="random_split"))
    # (c) a fault at every I/O call index
    for kind in KINDS:
        lreq, lrep = frame_lengths(kind)
        variants = [{}, {"write_chunk": lreq // 2 + 1, "read_chunk": 3}]
        if not quick:
            variants += [{"write_chunk": 7, "read_chunk": 1}, {"write_chunk": 1, "read_chunk": 5}, {"write_chunk": lreq - 1}, {"read_chunk": max(1, lrep - 1)}]
        for vi, base in enumerate(variants):
            nio = io_calls(kind, base.get("write_chunk"), base.get("read_chunk"))
            for idx in range(nio + 1):
                for wf, rf in FAULT_PAIRS:
                    if quick and vi == 1 and rng.random() < 0.6:
                        continue
                    plan = dict(base, write={idx: wf}, read={idx: rf})
                    cases.append(make_case(rng, kind, plan, tag="fault"))
    # (d) the late reply: time-out on the first read, then a call with a different right answer on the same connection
    for kind in KINDS:
        if kind == "produce0":
            continue
        for follow in ([("offsets", 1)], [("offsets", 1), ("offsets", 0)], [("produce1", 1)],
                       [("commit" if kind in ("commit", "commit_fresh") else "produce1", 1), ("offsets", 1)], [("metadata", 0)]):
            ridx = 1 if kind != "commit_fresh" else rng.choice([1, 4])
            cases.append(make_case(rng, kind, {"read": {ridx: ["fail", "timeout"]}}, follow=follow, nb=1, tag="late_reply"))
    # (f) one produce call addressing two brokers (acks 1), a fault at every I/O index, then calls to each broker
    for idx in range(0, 7):
        for wf, rf in FAULT_PAIRS + [(None, None)]:
            for order in (0, 1):
                cases.append(make_case2(rng, idx, wf, rf, order))
    # (g) the same with acks disabled: nothing is read, the call may report success only if both frames were handed over whole
    for idx in range(0, 4):
        for wf in (["fail", "other"], 0, 3, "intr", None):
            for order in (0, 1):
                cases.append(make_case2(rng, idx, wf, ["fail", "timeout"], order, acks=0))
    # (h) a metadata load whose request is refused by the stream before a single byte is accepted (the connection stays in step),
    #     then a group call that needs a pooled connection for its coordinator lookup, then ordinary calls
    for wf in (["fail", "other"], ["fail", "timeout"]):
        for which in (0, 0, 1):
            for follow in ([("commit", 1), ("offsets", 1)], [("commit", 0)], [("offsets", 0), ("commit", 1)]):
                cases.append(make_case(rng, "metadata", {"write": {0: wf}}, follow=follow, nb=1, which=which, tag="metadata_write_refused"))
    # (i) Consumer::poll with a fault at every I/O index of its fetch exchange
    for idx in range(0, 4):
        for wf, rf in FAULT_PAIRS:
            cases.append(make_poll_case(rng, {"write": {idx: wf}, "read": {idx: rf}}, "poll_fault"))
        cases.append(make_poll_case(rng, {"write_chunk": 7, "read_chunk": 5, "read": {idx + 3: ["fail", "timeout"]}}, "poll_fault"))
    # (e) refused connects
    for kind in KINDS:
        for h in (1, 2):
            cases.append(make_case(rng, kind, {"connect_fail": [host(h)]}, nb=2, tag="connect_fail"))
    for _ in range(24 if tier == "quick" else 300):
        cases.append(make_refused_case(rng))
    return cases


# ---- oracle ---------------------------------------------------------------------------------------

class Send:
    def __init__(self, h, frame):
        self.host, self.frame = h, frame
        self.accepted, self.failed, self.faults = 0, False, 0
        self.reads = b""
        self.nwrites = self.nreads = 0
        self.read_fault = None
        try:
            self.rq = kproto.parse_request(frame[4:]) if len(frame) >= 4 and struct.unpack(">i", frame[:4])[0] == len(frame) - 4 else None
        except kproto.ProtoError:
            self.rq = None

    @property
    def complete(self):
        return self.accepted == len(self.frame)

    @property
    def reply_due(self):
        return not (self.rq is not None and self.rq["api"] == "produce" and self.rq["body"]["acks"] == 0)


def exchanges(rec):
    """-> (sends of this op in order, reads that belong to no send of this op, connect failures)"""
    sends, orphan, refused = [], 0, 0
    cur = {}
    for ev in rec["raw_events"]:
        n, a = ev.name, ev.args
        if n == "connect":
            if a[1] == 0:
                refused += 1
            cur.pop(a[0], None)
        elif n == "write":
            h, data, res = a
            s = cur.get(h)
            if s is None or s.failed or s.complete or data != s.frame[s.accepted:]:
                s = Send(h, data)
                sends.append(s)
                cur[h] = s
            s.nwrites += 1
            if res.name == "wrote":
                s.accepted += res.args[0]
                if res.args[0] == 0 and data:
                    s.failed = True
                    s.faults += 1
            elif res.name == "intr":
                s.faults += 1
            else:
                s.failed = True
                s.faults += 1
        elif n == "read":
            h, want, res = a
            s = cur.get(h)
            if s is None:
                orphan += 1
                continue
            s.nreads += 1
            if res.name == "data":
                s.reads += res.args[0]
                if not res.args[0]:
                    s.read_fault = "eof"
                    s.faults += 1
            elif res.name == "intr":
                s.faults += 1
            else:
                s.read_fault = res.args[0].name
                s.faults += 1
    return sends, orphan, refused


def reply_state(s):
    """-> 'none' | 'partial' | 'whole' | 'beyond' for the reply bytes read after send s, and (size, correlation id)"""
    if not s.reads:
        return "none", None, None
    if len(s.reads) < 4:
        return "partial", None, None
    size = struct.unpack(">i", s.reads[:4])[0]
    corr = struct.unpack(">i", s.reads[4:8])[0] if len(s.reads) >= 8 else None
    if size < 0:
        return "partial", size, corr
    if len(s.reads) < 4 + size:
        return "partial", size, corr
    if len(s.reads) == 4 + size:
        return "whole", size, corr
    return "beyond", size, corr


def oracle(case, recs, cl):
    m = case["meta"]
    fails = []
    init_latest = 5
    appended = 0            # messages the leader appended to t1:0 so far (from the produce requests it received)
    cleared = False         # a failed load_metadata_all leaves the client without metadata
    tainted = set()         # hosts whose connection an earlier exchange of this case left out of step (failed read / partial write)
    if m["kind"] == "poll":
        if len(recs) <= m["first"]:
            return ["C15: poll case stopped early: %s" % dumps(recs[-1]["impl"])[:100]]
        rec = recs[m["first"]]
        res = rec["impl"]
        if res.name in ("panic", "hang", "abort"):
            return ["C15: poll: %s under a legal stream behaviour" % res.name]
        sends, orphan, refused = exchanges(rec)
        broken = refused or any(s.failed or s.read_fault or not s.complete for s in sends) or \
            any(e.name in ("read", "write") and e.args[2].name == "fail" for e in rec["raw_events"])
        if broken and res.name == "ok":
            return ["C15: poll: the fetch exchange failed (%s) but Consumer::poll returned success: %s" % (
                [e.args[2].args[0].name for e in rec["raw_events"] if e.name in ("read", "write") and e.args[2].name == "fail"][:2], dumps(res)[:80])]
        return []
    for i, rec in enumerate(recs):
        item = case["ops"][i]
        op = item["op"] if isinstance(item, dict) else item
        res = rec["impl"]
        tag = "op %d %s" % (i, op.name)
        if res.name in ("panic", "hang", "abort"):
            fails.append("C15: %s: %s under a legal stream behaviour: %s" % (tag, res.name, dumps(res)[:100]))
            break
        sends, orphan, refused = exchanges(rec)
        appended_before = appended
        for h, payload in rec["requests"]:
            try:
                rq = kproto.parse_request(payload)
                if rq["api"] == "produce":
                    for t in rq["body"]["topics"] or []:
                        for p in t["partitions"] or []:
                            if t["topic"] == T1 and p["partition"] == 0 and cl.topics[T1][0] == cl.node_of_host(h):
                                appended += len(kproto.decode_message_set_deep(p["message_set"] or b""))
            except kproto.ProtoError:
                pass
        if i < m["first"] and not isinstance(item, dict):
            if res.name != "ok":
                fails.append("C15: set-up %s failed: %s" % (tag, dumps(res)[:80]))
            continue
        if orphan:
            fails.append("C15: %s: %d read calls on a connection without a request of this call" % (tag, orphan))
        is_meta = op.name in ("load_metadata", "load_metadata_all")
        # no reply is awaited with acks = 0; at most one reply frame is consumed per request
        for s in sends:
            st, size, corr = reply_state(s)
            if not s.reply_due and s.nreads:
                fails.append("C15: %s: %d read calls after a produce request with acks = 0" % (tag, s.nreads))
            if st == "beyond":
                fails.append("C15: %s: %d bytes read for one request, the reply frame has %d" % (tag, len(s.reads), 4 + size))
            if s.complete and s.reply_due and s.nreads == 0 and not s.failed and s.faults == 0 and s.rq is not None:
                fails.append("C15: %s: the %s request to %r was accepted completely and nothing failed on that connection, "
                             "but its reply was never read (it stays queued for the next call)" % (tag, s.rq["api"], s.host))
            if not s.complete and not s.failed and s.nreads:
                fails.append("C15: %s: reply awaited although only %d of %d request bytes were accepted" % (tag, s.accepted, len(s.frame)))
        if res.name == "ok":
            if not sends:
                if not (cleared and op.name == "fetch_offsets"):
                    fails.append("C15: %s: success without any request written" % tag)
            relevant = sends
            if is_meta and sends:
                # metadata falls back to the next bootstrap host when a send fails: the last send must be the good one
                for s in sends[:-1]:
                    if s.complete and not s.failed:
                        fails.append("C15: %s: metadata request to %r was complete but another host was asked" % (tag, s.host))
                relevant = sends[-1:]
            for s in relevant:
                if s.rq is None:
                    fails.append("C15: %s: success but the written frame is not a well-formed request" % tag)
                    continue
                api = s.rq["api"]
                if not s.complete:
                    fails.append("C15: %s: success although only %d of the %d bytes of the %s request were accepted by the stream" %
                                 (tag, s.accepted, len(s.frame), api))
                    continue
                if not s.reply_due:
                    continue
                st, size, corr = reply_state(s)
                if st != "whole":
                    fails.append("C15: %s: success although the reply to %s was not read completely (%d bytes read%s)" %
                                 (tag, api, len(s.reads), ", frame has %d" % (4 + size) if size is not None else ""))
                elif corr != s.rq["correlation_id"]:
                    wrong = check_value(op, res, init_latest + appended_before, tag)
                    fails.append(("C15-late-reply" if s.host in tainted else "C15") + ": %s: success computed from a reply frame with correlation id %s, the %s request carries %d "
                                 "(the frame answers an earlier request on this connection)%s" %
                                 (tag, corr, api, s.rq["correlation_id"], "; wrong result: " + wrong[0].split(": ", 2)[2] if wrong else ""))
            if not [f for f in fails if f.startswith("C15") and tag in f]:
                fails += check_value(op, res, init_latest + appended_before, tag)
            if op.name == "load_metadata_all":
                cleared = False
            if is_meta and op.name == "load_metadata" and cleared:
                cleared = False
        else:
            if op.name == "load_metadata_all":
                cleared = True
            clean = sends and all(s.complete and s.faults == 0 and (not s.reply_due or reply_state(s)[0] == "whole") and
                                  (not s.reply_due or reply_state(s)[2] == s.rq["correlation_id"]) and s.rq is not None for s in sends)
            if clean and not refused and not cleared:
                fails.append("C15: %s: every request was accepted and every reply read completely and without fault, yet the call failed: %s" %
                             (tag, dumps(res)[:80]))
        for s in sends:
            if s.read_fault or s.failed or (not s.complete) or (s.reply_due and s.nreads and reply_state(s)[0] != "whole"):
                tainted.add(s.host)
        if fails:
            break        # the client's state after a violation (e.g. metadata taken from a foreign reply) is no basis for judging later calls
    return fails[:5]


def check_value(op, res, latest, tag):
    if op.name == "fetch_offsets":
        v = res.args[0]
        if not v:
            return []
        want = latest if op.args[1].name == "latest" else 2
        got = [(t.args[0], [(po.args[0], po.args[1]) for po in t.args[1]]) for t in v]
        if got != [(T1, [(0, want)])]:
            return ["C15: %s: %s offset reported as %s, the log says %d" % (tag, op.args[1].name, got, want)]
    if op.name == "produce_messages" and op.args[0] != 0 and len(op.args[3]) == 1 and op.args[3][0].args[0] == T1:
        v = res.args[0]
        got = [(c.args[0], [(pc.args[0], pc.args[1]) for pc in c.args[1]]) for c in v]
        if got != [(T1, [(0, T("ok", [latest]))])]:
            return ["C15: %s: produce confirmed as %s, the log end was %d" % (tag, dumps(res)[:100], latest)]
    return []


def nontrivial(case, recs):
    m = case["meta"]
    if len(recs) <= m["first"]:
        return False
    sends, orphan, refused = exchanges(recs[m["first"]])
    return bool(refused) or any(s.nwrites > 1 or s.nreads > 2 or s.faults for s in sends)


def stats(case, recs):
    m = case["meta"]
    s = {"kind:" + m["kind"]: 1, "plan:" + m["tag"]: 1, "brokers:%d" % len(case["cluster"]["brokers"]): 1,
         "followups:%d" % (len(case["ops"]) - m["first"] - 1): 1}
    if len(recs) > m["first"]:
        rec = recs[m["first"]]
        sends, orphan, refused = exchanges(rec)
        s["write_calls"] = sum(x.nwrites for x in sends)
        s["read_calls"] = sum(x.nreads for x in sends)
        s["faults_met"] = sum(x.faults for x in sends) + refused
        s["result:" + rec["impl"].name] = 1
        for x in sends:
            if not x.complete:
                s["request_not_fully_accepted"] = s.get("request_not_fully_accepted", 0) + 1
            elif x.reply_due and reply_state(x)[0] != "whole":
                s["reply_not_fully_read"] = s.get("reply_not_fully_read", 0) + 1
    for rec in recs[m["first"] + 1:]:
        s["followup_result:" + rec["impl"].name] = s.get("followup_result:" + rec["impl"].name, 0) + 1
    return s
