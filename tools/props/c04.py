"""C04: with CRC validation on, corrupted messages are rejected, never delivered."""
import struct
import zlib

import kproto
from val import T, dumps
from props.common import boot_ops, brokers, fp, rand_bytes

SLICE = "ProtocolMessage::from_slice CRC check, validate flag handed down into decompressed sets, KafkaClient::set_fetch_crc_validation"
RULE = ("corpus of 10 message sets (plain 1 and 3 messages, null/empty/short keys, gzip wrapper, xerial snappy wrapper with 1 and 2 "
        "chunks, a message inside a gzip / snappy wrapper whose own CRC is recomputed, a message below the requested offset; thorough: + 40 "
        "random sets) delivered as scripted fetch replies; one XOR pattern over the 4 CRC-field bytes + the CRC-covered bytes (magic..value) "
        "of one message per fetch; bit index = 8*byte + bit with the least significant bit of a byte first (the order CRC-32 processes "
        "them). Patterns: every single bit of every corpus message (exhaustive, both tiers); double flips (all pairs of the 120-bit "
        "message in the thorough tier, sampled otherwise); bursts = start x length<=32 with all-ones, alternating and random fill (first and "
        "last bit set) confined to the covered bytes, confined to the field, and straddling the field/data boundary (exhaustive over start x "
        "length x fill for the two smallest messages (120 and 136 bits) in both tiers; sampled for the others); each with validation on, "
        "and with validation off for every field-confined pattern and for patterns that touch only the field and the key/value bytes of "
        "an uncompressed message (magic, attributes, length fields or a compressed stream are never altered with validation off); "
        "uncorrupted controls; one crafted straddling burst whose checksum matches (known class C04-straddling-burst). "
        "non-trivial = a case in which at least one corrupted reply was decoded with validation on")
ASSUMPTIONS = ["'burst of up to 32 bits' is read in CRC bit order (LSB of each byte first), the order in which CRC-32 guarantees detection of "
               "bursts confined to the covered bytes; counted MSB-first, 26-32-bit bursts confined to the covered bytes can have a matching "
               "checksum as well (a property of the format, found numerically with zlib.crc32, not generated)",
               "double-bit flips are guaranteed detected only for messages shorter than 2^32-1 bits; all generated messages are"]
EXHAUSTIVE = False

KNOWN = "C04-straddling-burst:"
TOPIC = b"t"
OPS_PER_CASE = 40


# ---- corpus ------------------------------------------------------------------------------------------------

def P(o, k, v):
    return ("plain", o, k, v)


def corpus():
    """name -> (entries, path of the target message, requested offset, snappy chunk)"""
    m3 = [P(3, b"k0", b"v0"), P(4, b"", b"middle"), P(5, None, None)]
    return {
        "plain-tiny": ([P(0, None, b"x")], (0,), 0, None),                                  # 11 covered bytes
        "plain-key": ([P(7, b"k", b"vv")], (0,), 7, None),
        "plain-middle": (m3, (1,), 3, None),
        "plain-last-null": (m3, (2,), 3, None),
        "plain-below-request": ([P(0, None, b"old"), P(1, None, b"new")], (0,), 1, None),
        "gzip-wrapper": ([("wrap", "gzip", 1, [P(0, None, b"a"), P(1, b"k", b"b")])], (0,), 0, None),
        "snappy-wrapper": ([("wrap", "snappy", 1, [P(0, None, b"a"), P(1, b"k", b"b")])], (0,), 0, None),
        "snappy-wrapper-2chunks": ([("wrap", "snappy", 2, [P(1, b"", b"a"), P(2, None, b"bc")])], (0,), 1, 30),
        "inner-gzip": ([("wrap", "gzip", 1, [P(0, None, b"a"), P(1, b"k", b"b")])], (0, 1), 0, None),
        "inner-snappy": ([("wrap", "snappy", 1, [P(0, None, b"a"), P(1, b"k", b"b")])], (0, 0), 0, None),
    }


def rand_corpus(rng, n):
    out = {}
    for i in range(n):
        kind = rng.choice(["plain", "plain", "wrapper", "inner"])
        msgs = []
        for j in range(rng.randint(1, 4)):
            k = None if rng.random() < 0.4 else rand_bytes(rng, 0, 12)
            v = None if rng.random() < 0.1 else rand_bytes(rng, 0, rng.choice([4, 30, 200]))
            msgs.append(P(10 + j, k, v))
        if kind == "plain":
            out["rand%d-plain" % i] = (msgs, (rng.randrange(len(msgs)),), 10, None)
        else:
            codec = rng.choice(["gzip", "snappy"])
            entries = [("wrap", codec, msgs[-1][1], msgs)]
            path = (0,) if kind == "wrapper" else (0, rng.randrange(len(msgs)))
            out["rand%d-%s-%s" % (i, kind, codec)] = (entries, path, 10, rng.choice([None, 16, 50]) if codec == "snappy" else None)
    return out


def content_bits(entries, path):
    """bit indices (field + covered numbering) of the key and value BYTES of the target message; empty for a compressed wrapper,
    whose value is a compressed stream"""
    e = entries[path[0]] if len(path) == 1 else entries[path[0]][3][path[1]]
    if e[0] != "plain":
        return set()
    k, v = e[2] or b"", e[3] or b""
    key0 = 4 + 2 + 4
    val0 = key0 + len(k) + 4
    return set(range(8 * key0, 8 * (key0 + len(k)))) | set(range(8 * val0, 8 * (val0 + len(v))))


def decode_ignoring_crc(data, depth=0):
    """independent decode of a message set that does not look at checksums -> [(offset, key, value)]"""
    out = []
    for m in kproto.parse_message_set(data, strict=True):
        codec = m["attr"] & 7
        if codec == 0:
            out.append((m["offset"], m["key"] or b"", m["value"] or b""))
        elif codec == 1:
            out += decode_ignoring_crc(kproto.gzip_decompress(m["value"]), depth + 1)
        elif codec == 2:
            out += decode_ignoring_crc(kproto.snappy_xerial_decompress(m["value"]), depth + 1)
        else:
            raise kproto.ProtoError("codec %d" % codec)
    return out


def clean_message(entries, path, chunk):
    """bytes of the target message (offset, size, crc, magic..value) as stored"""
    if len(path) == 1:
        return kproto.encode_entries([entries[path[0]]], chunk)
    return kproto.encode_entries([entries[path[0]][3][path[1]]])


def build_set(entries, path, chunk, xor):
    """message-set bytes with `xor` applied to the CRC field + covered bytes of the target message"""
    def patch(msg):
        assert len(xor) == len(msg) - 12
        return msg[:12] + bytes(a ^ b for a, b in zip(msg[12:], xor))
    out = []
    for i, e in enumerate(entries):
        if i != path[0]:
            out.append(kproto.encode_entries([e], chunk))
        elif len(path) == 1:
            out.append(patch(kproto.encode_entries([e], chunk)))
        else:
            _, codec, off, inner = e
            raw = b"".join(patch(kproto.encode_entries([x])) if j == path[1] else kproto.encode_entries([x]) for j, x in enumerate(inner))
            val = kproto.gzip_compress(raw) if codec == "gzip" else kproto.snappy_xerial_compress(raw, chunk)
            out.append(kproto.encode_message(off, None, val, attr=kproto.CODECS[codec]))     # the wrapper's own CRC is intact
    return b"".join(out)


# ---- XOR patterns ----------------------------------------------------------------------------------------

def xor_of_bits(nbytes, bits):
    b = bytearray(nbytes)
    for i in bits:
        b[i // 8] ^= 1 << (i % 8)
    return bytes(b)


def bits_of_xor(xor):
    return [8 * i + j for i, x in enumerate(xor) for j in range(8) if x >> j & 1]


def burst_bits(rng, start, length, fill):
    if fill == "ones":
        return list(range(start, start + length))
    if fill == "alt":
        return sorted(set(list(range(start, start + length, 2)) + [start + length - 1]))
    return sorted(set([start, start + length - 1] + [i for i in range(start + 1, start + length - 1) if rng.random() < 0.5]))


def region(bits):
    f = any(i < 32 for i in bits)
    d = any(i >= 32 for i in bits)
    return "field" if f and not d else "data" if d and not f else "straddle" if f else "none"


def all_bursts(nbits, where):
    """(start, length) of every burst of <= 32 bits confined to the field / the covered bytes / straddling the boundary"""
    out = []
    for start in range(nbits):
        for length in range(1, 33):
            end = start + length
            if end > nbits:
                break
            w = "field" if end <= 32 else "data" if start >= 32 else "straddle"
            if w == where:
                out.append((start, length))
    return out


# a straddling burst whose checksum matches: null key, 13-byte value, found with zlib.crc32 by solving the GF(2) system
# "CRC change caused by the data bits = flipped field bits" under the constraint that all flipped bits lie within 32 consecutive
# positions and only bits the decoder ignores are touched (attribute bits 3..7, key length stays negative = null key)
WITNESS_ENTRIES = [("plain", 0, None, b"a" * 13)]
WITNESS_BITS = [21, 22, 23, 25, 26, 27, 28, 30, 31, 43, 44, 45, 49, 50, 51, 52]


def witness_job(validate):
    msg = clean_message(WITNESS_ENTRIES, (0,), None)
    xor = xor_of_bits(len(msg) - 12, WITNESS_BITS)
    bad = bytes(a ^ b for a, b in zip(msg[12:], xor))
    assert WITNESS_BITS[-1] - WITNESS_BITS[0] + 1 <= 32 and region(WITNESS_BITS) == "straddle"
    assert zlib.crc32(bad[4:]) & 0xFFFFFFFF == struct.unpack(">I", bad[:4])[0], "witness no longer passes the checksum"
    return {"target": "witness-null-key-13", "entries": WITNESS_ENTRIES, "path": (0,), "req": 0, "chunk": None, "xor": xor,
            "validate": validate, "kind": "witness"}


# ---- generator -------------------------------------------------------------------------------------------

def make_case(jobs):
    spec = {"brokers": brokers(1), "topics": {TOPIC: [1]}, "logs": {}}
    ops = boot_ops(spec)
    metas = []
    flag = None
    jobs = sorted(jobs, key=lambda j: -j["validate"])
    for j in jobs:
        if j["validate"] != flag:
            flag = j["validate"]
            ops.append(T("set_fetch_crc_validation", [flag]))
            metas.append(None)
        data = build_set(j["entries"], j["path"], j["chunk"], j["xor"])
        flat = kproto.flatten_entries(j["entries"])
        hw = flat[-1][0] + 1
        body = {"topics": [{"topic": TOPIC, "partitions": [{"partition": 0, "error": 0, "highwatermark": hw, "message_set": data}]}]}
        ops.append({"op": T("fetch_messages", [[fp(TOPIC, 0, j["req"])]]), "mutate": {"kind": "body", "api": "fetch", "body": body}})
        metas.append(dict(j, hw=hw))
    return {"cluster": spec, "ops": ops, "meta": {"nboot": 3, "jobs": metas}}


def make_config_case(rng, client_flag, builder_flag, source, target):
    """the way the setting reaches the decoder: a consumer built from hosts or from a client whose own setting is on, off or
    untouched, with the builder's with_fetch_crc_validation on, off or absent; then a poll that is answered with an altered message"""
    spec = {"brokers": brokers(1), "topics": {TOPIC: [1]}, "logs": {}}
    ops = boot_ops(spec)
    if source == "client" and client_flag is not None:
        ops.append(T("set_fetch_crc_validation", [client_flag]))
    calls = [T("with_topic", [TOPIC]), T("with_fallback_offset", [T("earliest")])]
    if builder_flag is not None:
        calls.append(T("with_fetch_crc_validation", [builder_flag]))
    rng.shuffle(calls)
    hs = [h + b":" + str(p).encode() for _, (h, p) in sorted(spec["brokers"].items())]
    ops.append(T("consumer_build", [T("from_client") if source == "client" else T("from_hosts", [hs]), calls]))
    entries, path, req, chunk = corpus()[target]
    n = len(clean_message(entries, path, chunk)) - 12
    bit = rng.choice(sorted(content_bits(entries, path)))
    xor = xor_of_bits(n, [bit])
    data = build_set(entries, path, chunk, xor)
    hw = kproto.flatten_entries(entries)[-1][0] + 1
    body = {"topics": [{"topic": TOPIC, "partitions": [{"partition": 0, "error": 0, "highwatermark": hw, "message_set": data}]}]}
    ops.append({"op": T("poll"), "mutate": {"kind": "body", "api": "fetch", "body": body}})
    effective = builder_flag if builder_flag is not None else (client_flag if (source == "client" and client_flag is not None) else 1)
    return {"cluster": spec, "ops": ops,
            "meta": {"nboot": 3, "jobs": [], "config": {"client": client_flag, "builder": builder_flag, "source": source, "target": target,
                                                       "bit": bit, "effective": effective, "sent": data}}}


def make_mixed_case(rng, codec, inner_idx):
    """uncompressed messages followed by a compressed batch in ONE set (a topic fed by producers with different settings); an inner
    message of the batch was altered before compression, the batch's own checksum is intact: the fetch is rejected (validation on)"""
    spec = {"brokers": brokers(1), "topics": {TOPIC: [1]}, "logs": {}}
    ops = boot_ops(spec) + [T("set_fetch_crc_validation", [1])]
    entries = [P(0, b"k", b"first"), P(1, None, b"second"), ("wrap", codec, 3, [P(2, None, b"a"), P(3, b"k", b"b")])]
    path = (2, inner_idx)
    n = len(clean_message(entries, path, None)) - 12
    bit = rng.randrange(0, 8 * n)
    data = build_set(entries, path, None, xor_of_bits(n, [bit]))
    body = {"topics": [{"topic": TOPIC, "partitions": [{"partition": 0, "error": 0, "highwatermark": 4, "message_set": data}]}]}
    ops.append({"op": T("fetch_messages", [[fp(TOPIC, 0, 0)]]), "mutate": {"kind": "body", "api": "fetch", "body": body}})
    return {"cluster": spec, "ops": ops, "meta": {"nboot": 3, "jobs": [], "mixed": {"codec": codec, "inner": inner_idx, "bit": bit}}}


def make_two_broker_case(rng, flag, target, order):
    """one fetch call answered by two brokers: the first partition's set is intact, the other broker's set holds the altered message"""
    spec = {"brokers": brokers(2), "topics": {TOPIC: [1, 2]}, "logs": {(TOPIC, 0): [P(0, b"k", b"intact-0"), P(1, None, b"intact-1")]}}
    ops = boot_ops(spec) + [T("set_fetch_crc_validation", [flag])]
    entries, path, req, chunk = corpus()[target]
    n = len(clean_message(entries, path, chunk)) - 12
    cb = sorted(content_bits(entries, path))
    bit = rng.choice(cb) if cb else rng.randrange(0, 8 * n)      # (a wrapper has no plain content bits: any covered bit, validation on only)
    data = build_set(entries, path, chunk, xor_of_bits(n, [bit]))
    hw = kproto.flatten_entries(entries)[-1][0] + 1
    body = {"topics": [{"topic": TOPIC, "partitions": [{"partition": 1, "error": 0, "highwatermark": hw, "message_set": data}]}]}
    fps = [fp(TOPIC, 0, 0), fp(TOPIC, 1, req)]
    h2 = [h + b":" + str(p).encode() for _, (h, p) in sorted(spec["brokers"].items())][1]
    ops.append({"op": T("fetch_messages", [fps if order == 0 else fps[::-1]]), "mutate": {"kind": "body", "api": "fetch", "host": h2, "body": body}})
    return {"cluster": spec, "ops": ops,
            "meta": {"nboot": 3, "jobs": [], "two_brokers": {"flag": flag, "target": target, "bit": bit, "sent": data, "req": req}}}


def gen(rng, tier):
    quick = tier == "quick"
    targets = corpus()
    if not quick:
        targets.update(rand_corpus(rng, 40))
    jobs = []

    def add(name, bits, kind, validate):
        entries, path, req, chunk = targets[name]
        n = len(clean_message(entries, path, chunk)) - 12
        jobs.append({"target": name, "entries": entries, "path": path, "req": req, "chunk": chunk, "xor": xor_of_bits(n, bits),
                     "validate": validate, "kind": kind})

    small = ["plain-tiny", "plain-key"]
    for name, (entries, path, req, chunk) in targets.items():
        nbits = 8 * (len(clean_message(entries, path, chunk)) - 12)
        # With validation off only patterns that leave the structure alone are generated: the checksum field and the key / value
        # bytes of an uncompressed message. (Magic, attributes, length fields or a compressed stream altered with validation off are
        # outside this property: other errors, other contents, or a debug assertion are then legitimate.)
        harmless = set(range(32)) | content_bits(entries, path)

        def both(bits, kind, p_off):
            add(name, bits, kind, 1)
            if all(b in harmless for b in bits) and (all(b < 32 for b in bits) or rng.random() < p_off):
                add(name, bits, kind, 0)

        add(name, [], "control", 1)
        add(name, [], "control", 0)
        # single bits: all of them with validation on; with validation off every field bit and every key/value bit
        for i in range(nbits):
            both([i], "single", 1.0)
        # double flips
        pairs = [(i, j) for i in range(nbits) for j in range(i + 1, nbits)]
        if name == "plain-tiny" and not quick:
            chosen = pairs
        else:
            chosen = rng.sample(pairs, min(len(pairs), (700 if name in small else 250) if quick else 1500))
        for (i, j) in chosen:
            both([i, j], "double", 0.5)
        # bursts
        for where in ("data", "field", "straddle"):
            allb = all_bursts(nbits, where)
            if name in small:
                plan = [(s, l, f) for (s, l) in allb for f in ("ones", "alt", "rand")]
            else:
                k = (400 if where == "data" else 150) if quick else 2500
                plan = [(s, l, rng.choice(["ones", "alt", "rand"])) for (s, l) in rng.sample(allb, min(len(allb), k))]
            for (s, l, f) in plan:
                both(burst_bits(rng, s, l, f), "burst_" + where, 0.5)
    rng.shuffle(jobs)
    jobs = [witness_job(1), witness_job(0)] + jobs
    cases = [make_case(jobs[i:i + OPS_PER_CASE]) for i in range(0, len(jobs), OPS_PER_CASE)]
    # the configuration paths of the setting (consumer builder x client setting x from hosts / from a client)
    for target in (("plain-key", "plain-middle") if quick else ("plain-key", "plain-middle", "plain-tiny")):      # (targets with key or value bytes to alter)
        for source in ("client", "hosts"):
            for client_flag in ((None, 0, 1) if source == "client" else (None,)):
                for builder_flag in (None, 0, 1):
                    cases.append(make_config_case(rng, client_flag, builder_flag, source, target))
    for codec in ("gzip", "snappy"):
        for inner_idx in (0, 1):
            for _ in range(2 if quick else 12):
                cases.append(make_mixed_case(rng, codec, inner_idx))
    # one damaged set among the answers of two brokers
    for target in (("plain-key", "gzip-wrapper") if quick else ("plain-key", "plain-middle", "gzip-wrapper", "snappy-wrapper", "inner-gzip")):
        for flag in ((1, 0) if content_bits(*corpus()[target][:2]) else (1,)):
            for order in (0, 1):
                cases.append(make_two_broker_case(rng, flag, target, order))
    return cases


# ---- oracle ----------------------------------------------------------------------------------------------

def delivered(res):
    """[(partition, hw, [(offset, key, value)])] of an ok fetch result"""
    out = []
    for r in res.args[0]:
        for tt in r.args[1]:
            for p in tt.args[1]:
                d = p.args[1]
                if d.name == "ok":
                    out.append((p.args[0], d.args[0], [(m.args[0], m.args[1], m.args[2]) for m in d.args[1]]))
                else:
                    out.append((p.args[0], None, dumps(d.args[0])))
    return out


CORRUPT = T("err", [T("kafka", [2])])


def oracle(case, recs, cl):
    fails = []
    meta = case["meta"]
    if meta.get("mixed"):
        c = meta["mixed"]
        what = "plain messages then a %s batch, bit %d of its inner message %d altered before compression, validation on" % (c["codec"], c["bit"], c["inner"])
        if len(recs) < len(case["ops"]):
            return ["C04: %s: case stopped early: %s" % (what, dumps(recs[-1]["impl"])[:100])]
        res = recs[-1]["impl"]
        if res.name in ("panic", "hang", "abort"):
            return ["C04: %s: fetch crashed: %s" % (what, dumps(res)[:80])]
        if res != CORRUPT:
            fails.append("C04: %s: expected (err (kafka 2)), got %s" % (what, dumps(res)[:140]))
        return fails
    if meta.get("two_brokers"):
        c = meta["two_brokers"]
        what = "two brokers, %s bit %d in the second broker's answer, validation %s" % (c["target"], c["bit"], "on" if c["flag"] else "off")
        if len(recs) < len(case["ops"]):
            return ["C04: %s: case stopped early: %s" % (what, dumps(recs[-1]["impl"])[:100])]
        res = recs[-1]["impl"]
        if res.name in ("panic", "hang", "abort"):
            return ["C04: %s: fetch crashed: %s" % (what, dumps(res)[:80])]
        if c["flag"]:
            if res != CORRUPT:
                fails.append("C04: %s: expected (err (kafka 2)), got %s" % (what, dumps(res)[:140]))
        elif res == CORRUPT:
            fails.append("C04: %s: rejected as corrupt" % what)
        elif res.name == "ok":
            got = dict((p, ms) for (p, hw, ms) in delivered(res) if hw is not None)
            want1 = [(o, k_, v) for (o, k_, v) in decode_ignoring_crc(c["sent"]) if o >= c["req"]]
            if got.get(1) != want1 or [o for (o, _, _) in got.get(0, [])] != [0, 1]:
                fails.append("C04: %s: both sets must be delivered as sent, got %s" % (what, dumps(res)[:160]))
        return fails
    if meta.get("config"):
        c = meta["config"]
        what = "consumer from %s (client setting %s, builder setting %s) %s bit %d" % (c["source"], c["client"], c["builder"], c["target"], c["bit"])
        if len(recs) < len(case["ops"]):
            return ["C04: %s: case stopped early: %s" % (what, dumps(recs[-1]["impl"])[:100])]
        res = recs[-1]["impl"]
        if res.name in ("panic", "hang", "abort"):
            return ["C04: %s: poll crashed: %s" % (what, dumps(res)[:80])]
        if c["effective"]:
            if res != CORRUPT:
                fails.append("C04: %s: validation is on for this consumer, expected (err (kafka 2)), got %s" % (what, dumps(res)[:100]))
        else:
            want = [(o, k_, v) for (o, k_, v) in decode_ignoring_crc(c["sent"])]
            got = None
            if res.name == "ok":
                got = [(m.args[0], m.args[1], m.args[2]) for st in res.args[0].args[1] for m in st.args[2]]
            if got != want:
                fails.append("C04: %s: validation is off for this consumer, the set as sent decodes to %s, result is %s" % (what, want, dumps(res)[:120]))
        return fails
    for i, j in enumerate(meta["jobs"]):
        if j is None:
            continue
        k = meta["nboot"] + i
        if k >= len(recs):
            fails.append("C04: case stopped before op %d: %s" % (k, dumps(recs[-1]["impl"])[:100]))
            break
        res = recs[k]["impl"]
        bits = bits_of_xor(j["xor"])
        reg = region(bits)
        span = (bits[-1] - bits[0] + 1) if bits else 0
        what = "%s %s %s bits=%s%s" % (j["target"], j["kind"], reg, bits[:6], "..." if len(bits) > 6 else "")
        clean = [(o, k_ or b"", v or b"") for (o, k_, v) in kproto.flatten_entries(j["entries"]) if o >= j["req"]]
        same_as_clean = res.name == "ok" and delivered(res) == [(0, j["hw"], clean)]
        if res.name in ("panic", "hang", "abort"):
            fails.append("C04: %s validation=%d: call crashed: %s" % (what, j["validate"], dumps(res)[:80]))
            continue
        if not bits:
            if not same_as_clean:
                fails.append("C04: %s validation=%d: an intact set was not delivered as stored: %s" % (what, j["validate"], dumps(res)[:120]))
            continue
        if j["validate"]:
            # clause 1: altered checksum field or checksummed bytes => the fetch fails with the corrupt-message error, nothing delivered
            if res != CORRUPT:
                msg = clean_message(j["entries"], j["path"], j["chunk"])
                bad = bytes(a ^ b for a, b in zip(msg[12:], j["xor"]))
                matches = zlib.crc32(bad[4:]) & 0xFFFFFFFF == struct.unpack(">I", bad[:4])[0]
                cls = KNOWN if (reg == "straddle" and span <= 32 and matches) else "C04:"
                fails.append("%s %s validation on: expected (err (kafka 2)), got %s%s" % (
                    cls, what, dumps(res)[:100], " (the altered checksum field equals the CRC-32 of the altered bytes)" if matches else ""))
        else:
            # clause 2: validation off - a wrong checksum alone never causes rejection
            if res == CORRUPT:
                fails.append("C04: %s validation off: rejected as corrupt" % what)
            elif reg == "field" and not same_as_clean:
                fails.append("C04: %s validation off: only the checksum field differs but the result is not the stored data: %s" %
                             (what, dumps(res)[:120]))
            elif j["kind"] != "witness":
                # field and/or key/value bytes altered, structure intact: delivered as sent
                sent = build_set(j["entries"], j["path"], j["chunk"], j["xor"])
                want = [(o, k_, v) for (o, k_, v) in decode_ignoring_crc(sent) if o >= j["req"]]
                if not (res.name == "ok" and delivered(res) == [(0, j["hw"], want)]):
                    fails.append("C04: %s validation off: the set as sent decodes to %d messages, result is %s" % (what, len(want), dumps(res)[:120]))
    fails.sort(key=lambda f: f.startswith(KNOWN))
    return fails[:8]


def nontrivial(case, recs):
    if case["meta"].get("config") or case["meta"].get("two_brokers") or case["meta"].get("mixed"):
        return len(recs) == len(case["ops"])
    jobs = case["meta"]["jobs"]
    return len(recs) == len(case["ops"]) and any(j and j["validate"] and any(j["xor"]) for j in jobs)


def stats(case, recs):
    s = {}

    def bump(k, n=1):
        s[k] = s.get(k, 0) + n
    if case["meta"].get("config"):
        c = case["meta"]["config"]
        bump("config_path:%s/client=%s/builder=%s" % (c["source"], c["client"], c["builder"]))
    for j in case["meta"]["jobs"]:
        if j is None:
            continue
        bump("fetches")
        bits = bits_of_xor(j["xor"])
        bump("validation:%s" % ("on" if j["validate"] else "off"))
        bump("kind:" + j["kind"])
        bump("region:%s/%s" % (region(bits), "on" if j["validate"] else "off"))
        t = j["target"]
        bump("target:" + (t if not t.startswith("rand") else "random-" + t.split("-", 1)[1]))
    return s
