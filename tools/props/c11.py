"""C11: broker error codes surface as the matching error, never as success."""
from val import T, dumps, some
from props.common import ALL_CODES, boot_ops, brokers, expected_code, fp, host, pm

SLICE = "Responses.from_protocol + per-API consultation (Client / Consumer / Producer layers)"
RULE = ("one case per (API, wire error code, position of the failing partition); codes: every value in -1..=35 plus "
        "36,127,128,255,256,32767,-2,-128,-129,-32768 (quick: a seeded half of them per API; thorough: all); for fetch_messages and poll also "
        "a topic of 1100 partitions on one broker with the failing partition at positions 7 / 1024.. / last of the listing; non-trivial = the case's "
        "injected non-zero code reached the client in a reply (counted per distinct case)")
ASSUMPTIONS = ["the reference broker (tools/cluster.py) places the injected code in the partition / group answer as the protocol guide lays it out"]
EXHAUSTIVE = False

APIS = ["fetch_offsets", "list_offsets", "fetch_messages", "produce", "commit", "group_fetch_v0", "group_fetch_v1",
        "coordinator", "poll", "send"]      # plus "commit2" / "group_fetch2": two failing partitions in one answer
T1 = b"t1"
LONG = 1100


def cluster_spec(layout="one"):
    # "one": t1 wholly led by broker 1; "spread": its partitions alternate between the two brokers, so that a call's answer for t1
    # is put together from two replies (the failing partition's reply may be the first or the second one processed)
    # "long": t1 has 1100 partitions on broker 1 - one reply lists more elements than any pre-allocation bound in the decoders (1024)
    return {"brokers": brokers(2), "topics": {T1: [1] * LONG if layout == "long" else [1, 1, 1] if layout == "one" else [1, 2, 1], b"t2": [2]},
            "logs": {(T1, 0): [("plain", 0, b"k", b"v0")], (T1, 1): [("plain", 0, None, b"v1")],
                     (T1, 2): [("plain", 0, None, b"v2")], (b"t2", 0): [("plain", 0, None, b"w")]}}


def make_case(api, code, pos, layout="one"):
    spec = cluster_spec(layout)
    ops = boot_ops(spec)
    inj = None
    if api == "fetch_offsets":
        spec["inject"] = [("offsets", T1, pos, code, -1)]
        ops.append(T("fetch_offsets", [[T1, b"t2"], T("latest")]))
    elif api == "list_offsets":
        spec["inject"] = [("list_offsets", T1, pos, code, -1)]
        ops.append(T("list_offsets", [[T1, b"t2"], T("earliest")]))
    elif api == "fetch_messages":
        spec["inject"] = [("fetch", T1, pos, code, -1)]
        ops.append(T("fetch_messages", [[fp(T1, i, 0) for i in range(LONG if layout == "long" else 3)] + [fp(b"t2", 0, 0)]]))
    elif api == "produce":
        spec["inject"] = [("produce", T1, pos, code, -1)]
        ops.append(T("produce_messages", [1 if (code + pos) % 2 else -1, 1, 0, [pm(T1, 0, b"a", b"b"), pm(T1, 1, None, b"c"), pm(T1, 2, None, b"d"),
                                                  pm(b"t2", 0, None, b"e")]]))
    elif api == "commit":
        spec["inject"] = [("offset_commit", T1, pos, code, -1)]
        ops += [T("set_group_offset_storage", [1]),
                T("commit_offsets", [b"g", [T("co", [T1, 0, 1]), T("co", [T1, 1, 1]), T("co", [T1, 2, 1])]])]
    elif api in ("group_fetch_v0", "group_fetch_v1"):
        spec["inject"] = [("offset_fetch", T1, pos, code, -1)]
        spec["committed"] = {b"g": {(T1, 0): 5, (T1, 1): 6, (T1, 2): 7}}
        ops += [T("set_group_offset_storage", [0 if api.endswith("v0") else 1]),
                T("fetch_group_offsets", [b"g", [T("fgo", [T1, 0]), T("fgo", [T1, 1]), T("fgo", [T1, 2])]])]
    elif api in ("commit2", "group_fetch2"):
        # two failing partitions in one answer: a non-retryable code at `pos`, a retryable one (once) at another position
        name = "offset_commit" if api == "commit2" else "offset_fetch"
        rp = (pos + 1 + (code % 2)) % 3
        # (both are answered once only: a client that wrongly tries again is then answered 'ok' and would report success)
        spec["inject"] = [(name, T1, pos, code, 1), (name, T1, rp, 14 if code % 2 else 16, 1)]
        spec["committed"] = {b"g": {(T1, 0): 5, (T1, 1): 6, (T1, 2): 7}}
        ops.append(T("set_group_offset_storage", [1]))
        if api == "commit2":
            ops.append(T("commit_offsets", [b"g", [T("co", [T1, 0, 1]), T("co", [T1, 1, 1]), T("co", [T1, 2, 1])]]))
        else:
            ops.append(T("fetch_group_offsets", [b"g", [T("fgo", [T1, 0]), T("fgo", [T1, 1]), T("fgo", [T1, 2])]]))
    elif api in ("list_offsets_twice", "fetch_offsets_twice"):
        # two calls on one client, the topic led by two brokers: the first is refused by one broker, the second by the other; each call
        # reports ITS refusal (an answer left over from the first call must not be taken for the second call's)
        name = "list_offsets" if api == "list_offsets_twice" else "offsets"
        opn = "list_offsets" if api == "list_offsets_twice" else "fetch_offsets"
        other = 1 if pos != 1 else 0          # a partition of the other broker in the spread layout (0, 2 on broker 1; 1 on broker 2)
        ops.append({"op": T(opn, [[T1, b"t2"], T("earliest")]), "inject": [(name, T1, pos, code, 1)]})
        ops.append({"op": T(opn, [[T1, b"t2"], T("latest")]), "inject": [(name, T1, other, code, 1)]})
    elif api == "coordinator":
        spec["coordinator_script"] = {b"g": [code] * 10}
        ops += [T("set_group_offset_storage", [1]), T("fetch_group_topic_offset", [b"g", T1])]
    elif api == "poll":
        spec["inject"] = [("fetch", T1, pos, code, -1)]
        ops += [T("consumer_build", [T("from_client"), [T("with_topic", [T1]), T("with_fallback_offset", [T("earliest")])]]),
                T("poll")]
    elif api == "send":
        spec["inject"] = [("produce", T1, pos, code, -1)]
        # both acknowledged modes: 1 (leader) and -1 (all in-sync replicas)
        ops += [T("producer_build", [T("from_client"), [T("with_required_acks", [1 if (code + pos) % 2 else -1])]]),
                T("send", [[T("r", [T1, pos, b"k", b"v"])]])]
    return {"cluster": spec, "ops": ops, "meta": {"api": api, "code": code, "pos": pos, "layout": layout},
            "id": "C11-%s-%d-%d-%s" % (api, code, pos, layout)}


def gen(rng, tier):
    cases = []
    n = 0
    for api in APIS:
        codes = list(ALL_CODES)
        if tier == "quick":
            rng.shuffle(codes)
            keep = set(codes[:len(codes) // 2]) | {0, 1, 3, 14, 15, 16, 35, 36, -1, -32768, 32767}
            codes = [c for c in ALL_CODES if c in keep]
        for code in codes:
            positions = [0, 1, 2] if api not in ("coordinator",) else [0]
            if tier == "quick" and api not in ("fetch_offsets", "fetch_messages"):
                positions = [rng.choice(positions)]
            for pos in positions:
                if tier == "quick":
                    n += 1
                    cases.append(make_case(api, code, pos, "spread" if n % 2 else "one"))
                else:
                    cases.append(make_case(api, code, pos, "one"))
                    cases.append(make_case(api, code, pos, "spread"))
    # the failing partition far down a long listing (beyond the 1024th element), and near its start
    for (api, code, pos) in ([("fetch_messages", 6, 1030), ("fetch_messages", 1, LONG - 1), ("poll", 6, 1050), ("fetch_messages", 9, 7)]
                             + ([] if tier == "quick" else [("fetch_messages", 3, 1024), ("fetch_messages", 36, 1025), ("poll", 1, 1024),
                                                            ("poll", 9, LONG - 1), ("poll", 6, 3)])):
        cases.append(make_case(api, code, pos, "long"))
    for api in ("list_offsets_twice", "fetch_offsets_twice"):
        for code in [1, 3, 6, 9, 36, -1, 257]:
            for pos in (0, 1, 2):
                if tier == "quick" and rng.random() < 0.4:
                    continue
                cases.append(make_case(api, code, pos, "spread"))
    for api in ("commit2", "group_fetch2"):
        for code in [c for c in ALL_CODES if c not in (0, 3, 14, 15, 16)]:
            if tier == "quick" and rng.random() < 0.5:
                continue
            for pos in ([0, 1, 2] if tier != "quick" else [rng.choice([0, 1, 2])]):
                n += 1
                cases.append(make_case(api, code, pos, "spread" if n % 2 else "one"))
    return cases


def _find(v, pred):
    """depth-first search in a val"""
    if pred(v):
        return v
    if isinstance(v, T):
        for a in v.args:
            r = _find(a, pred)
            if r is not None:
                return r
    elif isinstance(v, list):
        for a in v:
            r = _find(a, pred)
            if r is not None:
                return r
    return None


def oracle(case, recs, cl):
    m = case["meta"]
    api, code, pos = m["api"], m["code"], m["pos"]
    if recs[-1]["impl"].name in ("panic", "hang", "abort"):
        return ["C11: call crashed: %s" % dumps(recs[-1]["impl"])[:100]]
    if len(recs) < len(case["ops"]):
        return ["C11: case aborted early"]
    res = recs[-1]["impl"]
    exp = expected_code(code)
    fails = []

    def expect(cond, what):
        if not cond:
            fails.append("C11 %s code=%d pos=%d: %s; got %s" % (api, code, pos, what, dumps(res)[:160]))

    if exp is None:
        expect(res.name == "ok", "code 0 must be success")
        return fails
    if api in ("fetch_offsets", "list_offsets"):
        expect(res.name == "err" and res.args[0] == T("tperr", [T1, pos, exp]), "expected failed call naming topic, partition and kind %d" % exp)
    elif api == "fetch_messages":
        ok = res.name == "ok"
        expect(ok, "fetch result must carry per-partition errors")
        if ok:
            parts = [p for r in res.args[0] for tt in r.args[1] if tt.args[0] == T1 for p in tt.args[1]]
            bad = [p for p in parts if p.args[0] == pos]
            expect(len(bad) == 1 and bad[0].args[1] == T("err", [T("kafka", [exp])]), "partition must carry kind %d and no data" % exp)
            healthy = [p for p in parts if p.args[0] != pos]
            n = LONG if m.get("layout") == "long" else 3
            expect(all(p.args[1].name == "ok" and (p.args[1].args[1] or p.args[0] > 2) for p in healthy) and len(healthy) == n - 1,
                   "healthy partitions must keep their data")
    elif api == "produce":
        ok = res.name == "ok"
        expect(ok, "produce result must carry per-partition errors")
        if ok:
            pcs = [pc for c in res.args[0] if c.args[0] == T1 for pc in c.args[1]]
            bad = [pc for pc in pcs if pc.args[0] == pos]
            expect(len(bad) == 1 and bad[0].args[1] == T("err", [exp]), "partition confirm must be Err(kind %d)" % exp)
            expect(all(pc.args[1].name == "ok" for pc in pcs if pc.args[0] != pos) and len(pcs) == 3, "other confirms must be Ok")
    elif api == "commit":
        expect(res == T("err", [T("kafka", [exp])]), "commit must fail with kind %d" % exp)
    elif api in ("list_offsets_twice", "fetch_offsets_twice"):
        other = 1 if pos != 1 else 0
        r1 = recs[-2]["impl"]
        if not (r1.name == "err" and r1.args[0] == T("tperr", [T1, pos, exp])):
            fails.append("C11 %s code=%d pos=%d: the first call must fail naming partition %d and kind %d; got %s" % (api, code, pos, pos, exp, dumps(r1)[:160]))
        expect(res.name == "err" and res.args[0] == T("tperr", [T1, other, exp]),
               "the second call must fail naming partition %d and kind %d (its own refusal, not what the first call left behind)" % (other, exp))
    elif api in ("commit2", "group_fetch2"):
        rp = (pos + 1 + (code % 2)) % 3
        if pos < rp:
            # the refusal is listed before the retryable code: it ends the call
            expect(res == T("err", [T("kafka", [exp])]), "the call must fail with kind %d (a retryable code further down the same answer "
                   "does not make a refused partition succeed)" % exp)
        else:
            # the retryable code is listed first: the whole request is tried again, and the second answer (all partitions accepted) counts
            expect(res.name == "ok", "the retryable code listed first means the request is tried again; the second answer accepts every partition")
    elif api in ("group_fetch_v0", "group_fetch_v1"):
        if exp == 3:
            ok = res.name == "ok"
            expect(ok, "code 3 on a group offset fetch means nothing committed")
            if ok:
                pos_ = [po for t in res.args[0] for po in t.args[1] if po.args[0] == pos]
                expect(len(pos_) == 1 and pos_[0].args[1] == -1, "offset must be -1")
        else:
            expect(res == T("err", [T("kafka", [exp])]), "group offset fetch must fail with kind %d" % exp)
    elif api == "coordinator":
        expect(res == T("err", [T("kafka", [exp])]), "coordinator lookup must fail with kind %d" % exp)
    elif api == "poll":
        expect(res == T("err", [T("kafka", [exp])]), "poll must fail with kind %d" % exp)
    elif api == "send":
        expect(res == T("err", [T("kafka", [exp])]), "send must fail with kind %d" % exp)
    return fails


def nontrivial(case, recs):
    return case["meta"]["code"] != 0 and len(recs) == len(case["ops"])


def stats(case, recs):
    m = case["meta"]
    return {"api:" + m["api"]: 1, "code_class:" + ("zero" if m["code"] == 0 else "declared" if 1 <= m["code"] <= 35 else "unmapped"): 1,
            "pos:%d" % m["pos"]: 1, "layout:" + m.get("layout", "one"): 1}
