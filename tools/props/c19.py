"""C19: the consumer fetches exactly the assigned partitions, nothing else."""
import kproto
from val import T, dumps
from props import common
from props.common import boot_ops, brokers

SLICE = "consumer Builder (with_topic / with_topic_partitions) -> assignment::from_map -> State::new (determine_partitions), Consumer subscriptions / seek / consume_message / last_consumed_message / poll / commit_consumed"
RULE = ("metadata of 1-14 topics (1-4 partitions, some without leader) whose names come from families that sort around each other "
        "(prefix chains, names differing in the last byte, non-ASCII UTF-8 mixed with ASCII, punctuation around letters, up to 12 "
        "assigned topics so that the binary search over the sorted table is used at every index) x builder call lists "
        "(with_topic, with_topic_partitions with duplicates / unsorted / out-of-range / negative ids / empty list, later calls "
        "overriding earlier ones, unknown topics incl. near misses of known names, no call at all) x group set (both storages, "
        "committed offsets also for partitions that are not assigned) or unset. After a successful create(): subscriptions, two "
        "polls, then for a sample of foreign topic-partitions (unknown topic, known but unassigned topic, names sorting next to "
        "assigned ones, assigned topic with an unlisted / out-of-range / negative partition) last_consumed_message, seek, "
        "consume_message, last_consumed_message; last_consumed_message of the assigned ones; a poll; consume_message on one "
        "partition of EVERY assigned topic and seeks on some; last_consumed_message again; commit_consumed (group); a poll; "
        "subscriptions. non-trivial = create() failed for the reason the statement names, or it succeeded and at least one foreign "
        "and one assigned topic-partition were exercised")
ASSUMPTIONS = ["an empty explicit partition list means 'all partitions' (documented behaviour of the builder)",
               "offset (earliest/latest) requests at creation are checked per topic only: KafkaClient::fetch_offsets asks for every "
               "partition of the named topics",
               "a subscribed topic none of whose partitions has a leader may make create() fail (that is C07's subject)"]
EXHAUSTIVE = False

G = b"grp"


def U(s):
    return s.encode("utf-8")


FAMILIES = [
    [U(x) for x in ("a", "ab", "abc", "abcd", "abcde", "abd", "b")],
    [U(x) for x in ("tp0", "tp1", "tp2", "tp", "tp/", "tp:", "tp00", "tp10")],
    [U(x) for x in ("e", "é", "f", "ü", "€", "€a", "z", "~", "ét", "日本", "e\u0301", "\U0001F600")],
    [U(x) for x in ("B", "a", "_", "-", ".", "A", "b", "0", "Z", "a-b", "a.b", "a_b")],
    [U(x) for x in ("topic", "topic-1", "topic-10", "topic-2", "topic_1", "topic.1", "Topic", "topi", "topic-")],
    [U(x) for x in ("x", "xx", "xxx", "xxxx", "xy", "xé", "x~", "wÿ", "y")],
]


def near(name):
    """names that sort right next to `name`"""
    out = [name + b"0", name + b"-", name + U("é")]
    if len(name) > 1 and name[-1] < 0x80:
        out.append(name[:-1])
    if name and 0x21 <= name[-1] <= 0x7d:
        out.append(name[:-1] + bytes([name[-1] + 1]))
        out.append(name[:-1] + bytes([name[-1] - 1]))
    res = []
    for n in out:
        try:
            n.decode("utf-8")
        except UnicodeDecodeError:
            continue
        if n:
            res.append(n)
    return res


def rand_ids(rng, n, valid=True):
    """explicit partition list for a topic with n partitions"""
    k = rng.randint(1, n)
    ids = rng.sample(range(n), k)
    if rng.random() < 0.6:
        ids += [rng.choice(ids) for _ in range(rng.randint(1, 3))]      # duplicates
    rng.shuffle(ids)
    if not valid:
        bad = rng.choice([n, n + 1, n + 7, -1, -2, 1000, 2147483647, -2147483648])
        ids.insert(rng.randint(0, len(ids)), bad)
        if rng.random() < 0.2:
            ids = [bad]
    return ids


def effective(calls):
    eff = {}
    for (t, ps) in calls:
        eff[t] = None if ps is None else list(ps)
    return eff


def assigned_set(calls, topics):
    """-> ('ok', set of (topic, partition)) | ('err', T error) as the statement prescribes"""
    eff = effective(calls)
    if not eff:
        return "err", T("no_topics_assigned")
    A = set()
    for t, ps in eff.items():
        if t not in topics:
            return "err", T("kafka", [3])
        n = len(topics[t])
        if not ps:
            A |= {(t, p) for p in range(n)}
        else:
            for p in ps:
                if not (0 <= p < n):
                    return "err", T("kafka", [3])
                A.add((t, p))
    return "ok", A


def make_case(rng, kind):
    nb = rng.randint(1, 3)
    fam = list(rng.choice(FAMILIES))
    ntop = rng.choice([1, 2, 3, 4, 6, 8, 10, 12, 14])
    if rng.random() < 0.3 or ntop > len(set(fam)):
        fam += rng.choice(FAMILIES)
    fam = sorted(set(fam))
    rng.shuffle(fam)
    names = fam[:ntop]
    topics = {}
    for t in names:
        n = rng.randint(1, 4) if len(names) <= 6 else rng.randint(1, 2)
        ls = [(-1 if rng.random() < 0.12 else rng.randint(1, nb)) for _ in range(n)]
        if all(l < 0 for l in ls) and rng.random() < 0.9:
            ls[rng.randrange(n)] = rng.randint(1, nb)
        topics[t] = ls
    plainlogs = rng.random() < 0.3
    logs, log_start = {}, {}
    for ti, t in enumerate(names):
        for p in range(len(topics[t])):
            st = rng.randint(0, 40)
            if plainlogs and rng.random() < 0.6:
                logs[(t, p)] = [("plain", st + i, None, b"v%d" % i) for i in range(rng.randint(1, 3))]
            else:
                logs[(t, p)] = []
                log_start[(t, p)] = st
    spec = {"brokers": brokers(nb), "topics": topics, "logs": logs, "log_start": log_start}
    common.maybe_order(rng, spec)
    # ---- builder calls
    calls = []
    if kind == "none":
        pass
    else:
        nass = min(12, len(names)) if rng.random() < 0.3 else rng.randint(1, min(12, len(names)))
        chosen = rng.sample(names, nass)
        for t in chosen:
            n = len(topics[t])
            x = rng.random()
            if x < 0.45:
                calls.append((t, None))
            elif x < 0.5:
                calls.append((t, []))
            else:
                calls.append((t, rand_ids(rng, n)))
        # overriding calls for the same topic
        for _ in range(rng.choice([0, 0, 1, 2])):
            t = rng.choice(chosen)
            n = len(topics[t])
            calls.insert(rng.randint(0, len(calls)), (t, None) if rng.random() < 0.4 else (t, rand_ids(rng, n)))
        if kind == "badtopic":
            cands = [c for t in names for c in near(t) if c not in topics] + [U("nope"), U("éé")]
            for _ in range(rng.randint(1, 2)):
                t = rng.choice(cands)
                calls.insert(rng.randint(0, len(calls)), (t, None) if rng.random() < 0.6 else (t, [0]))
        elif kind == "badpart":
            t = rng.choice(chosen)
            bad = (t, rand_ids(rng, len(topics[t]), valid=False))
            # make it the effective call for t: drop later calls for t
            calls = [c for c in calls if c[0] != t]
            calls.insert(rng.randint(0, len(calls)), bad)
            if rng.random() < 0.3:
                calls.insert(0, (t, None))        # an earlier valid call that is overridden
        elif kind == "repaired":
            # an invalid call that a later one overrides: creation must succeed
            t = rng.choice(chosen)
            last = max(i for i, c in enumerate(calls) if c[0] == t)
            calls.insert(rng.randint(0, last), (t, rand_ids(rng, len(topics[t]), valid=False)))
    status, A = assigned_set(calls, topics)
    # ---- group
    grouped = rng.random() < 0.55
    storage = rng.randint(0, 1)
    committed = {}
    if grouped:
        for t in names:
            for p in range(len(topics[t])):
                if rng.random() < 0.3:
                    st = log_start.get((t, p), logs[(t, p)][0][1] if logs[(t, p)] else 0)
                    committed[(t, p)] = st + rng.randint(0, len(logs[(t, p)]))
        spec["committed"] = {G: committed}
        spec["coordinator"] = {G: rng.randint(1, nb)}
    bcalls = []
    # a group without an offset storage: creation fails with unset-offset-storage - but only after the assignment was found in order
    # (nothing assigned / unknown topic or partition are reported first)
    nostorage = grouped and rng.random() < 0.12
    if grouped:
        bcalls += [T("with_group", [G])] + ([] if nostorage else [T("with_offset_storage", [storage])])
    bcalls.append(T("with_fallback_offset", [T(rng.choice(["earliest", "latest"]))]))
    tcalls = [T("with_topic", [t]) if ps is None else T("with_topic_partitions", [t, list(ps)]) for (t, ps) in calls]
    # topic calls keep their order; the others are sprinkled in between
    for c in bcalls:
        tcalls.insert(rng.randint(0, len(tcalls)), c)
    hosts = [h + b":" + str(p).encode() for _, (h, p) in sorted(spec["brokers"].items())]
    if rng.random() < 0.75:
        ops = boot_ops(spec)
        ops.append(T("consumer_build", [T("from_client"), tcalls]))
    else:
        ops = [T("consumer_build", [T("from_hosts", [hosts]), tcalls])]
    ibuild = len(ops) - 1
    meta = {"calls": [(t, None if ps is None else list(ps)) for (t, ps) in calls], "group": grouped, "storage": storage,
            "ibuild": ibuild, "kind": kind, "nforeign": 0, "npositive": 0, "nostorage": nostorage}
    dead_topic = status == "ok" and any(all(topics[t][p] < 0 for p in range(len(topics[t]))) for t in set(t for t, _ in A))
    if status == "ok" and not nostorage and not (dead_topic and not any(tp in committed for tp in A)):
        def lcm(tp):
            return T("consumer_op", [T("last_consumed_message", [tp[0], tp[1]])])
        ops += [T("consumer_op", [T("subscriptions")]), T("poll"), T("poll")]
        atopics = sorted(set(t for t, _ in A))
        # foreign topic-partitions
        foreign = []
        for t in atopics:
            n = len(topics[t])
            for p in list(range(n)) + [n, n + 3, -1, 2147483647]:
                if (t, p) not in A:
                    foreign.append((t, p))
        fr_topics = [t for t in names if t not in atopics] + [c for t in atopics for c in near(t) if c not in atopics] + [U("nope"), b""]
        for t in fr_topics:
            foreign.append((t, 0))
            if rng.random() < 0.3:
                foreign.append((t, rng.choice([1, -1, 5])))
        rng.shuffle(foreign)
        # every category at least once: sort a few by category to the front
        pick, seen_cat = [], set()
        for tp in foreign:
            cat = "part" if tp[0] in atopics else "known" if tp[0] in topics else "unknown"
            if cat not in seen_cat:
                seen_cat.add(cat)
                pick.append(tp)
        pick += [tp for tp in foreign if tp not in pick][:rng.randint(4, 10)]
        for tp in pick:
            o = rng.randint(0, 60)
            ops += [lcm(tp), T("consumer_op", [T("seek", [tp[0], tp[1], o])]),
                    T("consumer_op", [T("consume_message", [tp[0], tp[1], rng.randint(0, 60)])]), lcm(tp)]
        meta["nforeign"] = len(pick)
        sample = sorted(A)
        if len(sample) > 14:
            sample = sorted(rng.sample(sample, 14))
        ops += [lcm(tp) for tp in sample]
        ops.append(T("poll"))
        # positive use: one partition of every assigned topic is marked, some are sought
        positive = []
        for i, t in enumerate(atopics):
            ps = sorted(p for (tt, p) in A if tt == t)
            p = rng.choice(ps)
            positive.append((t, p))
            ops.append(T("consumer_op", [T("consume_message", [t, p, 100 + 3 * i + p])]))
            if rng.random() < 0.2:
                ops.append(T("consumer_op", [T("consume_message", [t, p, rng.randint(0, 99)])]))     # a lower one: no effect
        for tp in rng.sample(sorted(A), min(len(A), rng.randint(1, 3))):
            offs = [e[1] for e in logs[tp]]
            if offs:
                ops.append(T("consumer_op", [T("seek", [tp[0], tp[1], rng.choice(offs)])]))
            else:
                ops.append(T("consumer_op", [T("seek", [tp[0], tp[1], log_start[tp]])]))
        meta["npositive"] = len(positive)
        ops += [lcm(tp) for tp in sample]
        if grouped:
            ops.append(T("consumer_op", [T("commit_consumed")]))
        ops.append(T("poll"))
        for tp in pick[:2]:
            ops += [T("consumer_op", [T("consume_message", [tp[0], tp[1], 7])]), T("consumer_op", [T("seek", [tp[0], tp[1], 7])]), lcm(tp)]
        ops += [lcm(tp) for tp in sample[:6]]
        if grouped:
            ops.append(T("consumer_op", [T("commit_consumed")]))
        # a seek beyond the log: the broker rejects the fetch, but the request shows who was moved
        if rng.random() < 0.5:
            tp = rng.choice(sorted(A))
            ops.append(T("consumer_op", [T("seek", [tp[0], tp[1], 5000 + rng.randint(0, 9)])]))
        if rng.random() < 0.4:
            # the cluster adds partitions to the topics after the consumer was created and the consumer's client reloads its metadata:
            # the set consumed - and reported - stays the one fixed at creation
            grown = {t: list(ls) + [rng.randint(1, nb) for _ in range(rng.randint(1, 2))] if (t in atopics and rng.random() < 0.7) else list(ls)
                     for t, ls in topics.items()}
            body = {"brokers": [{"node_id": n, "host": h, "port": p} for n, (h, p) in sorted(spec["brokers"].items())],
                    "topics": [{"error": 0, "topic": t, "partitions": [{"error": 0 if l >= 0 else 5, "id": i, "leader": l, "replicas": [], "isr": []}
                                                                        for i, l in enumerate(ls)]} for t, ls in sorted(grown.items())]}
            ops += [{"op": T("load_metadata_all"), "mutate": {"kind": "body", "api": "metadata", "body": body}},
                    T("consumer_op", [T("subscriptions")])]
            meta["grown"] = True
        ops += [T("poll"), T("consumer_op", [T("subscriptions")])]
    return {"cluster": spec, "ops": ops, "meta": meta}


def gen(rng, tier):
    cases = []
    k = 1 if tier == "quick" else 25
    for kind, n in (("ok", 330), ("repaired", 60), ("badtopic", 90), ("badpart", 110), ("none", 10)):
        for _ in range(n * k):
            cases.append(make_case(rng, kind))
    return cases


# ---- oracle ---------------------------------------------------------------------------------------------------------

def _parsed(rec):
    out = []
    for h, payload in rec["requests"]:
        try:
            out.append((h, kproto.parse_request(payload)))
        except kproto.ProtoError:
            pass
    return out


def oracle(case, recs, cl):
    m = case["meta"]
    spec = case["cluster"]
    topics = spec["topics"]
    calls = [(t, ps) for (t, ps) in m["calls"]]
    fails = []

    def F(msg):
        if len(fails) < 8:
            fails.append("C19: " + msg)

    for r in recs:
        if r["impl"].name in ("panic", "hang", "abort", "harness_error"):
            return ["C19: %s crashed: %s" % (r["op"].name, dumps(r["impl"])[:120])]
    if len(recs) <= m["ibuild"]:
        return ["C19: case aborted before create()"]
    status, A = assigned_set(calls, topics)
    res = recs[m["ibuild"]]["impl"]
    if status == "err":
        if res != T("err", [A]):
            F("create() with calls %s on topics %s returned %s, expected %s"
              % (calls, {t: len(ls) for t, ls in topics.items()}, dumps(res)[:80], dumps(T("err", [A]))))
        for h, rq in _parsed(recs[m["ibuild"]]):
            if rq["api"] in ("fetch", "offset_fetch", "offset_commit", "offsets"):
                F("a rejected assignment still sent a %s request" % rq["api"])
        return fails
    if m.get("nostorage"):
        if res != T("err", [T("unset_offset_storage")]):
            F("create() with a group, a valid assignment and no offset storage returned %s, expected unset-offset-storage" % dumps(res)[:80])
        return fails
    atopics = set(t for t, _ in A)
    committed = spec.get("committed", {}).get(G, {}) if m["group"] else {}
    dead_topic = any(all(l < 0 for l in topics[t]) for t in atopics)
    if res.name != "ok":
        if dead_topic and res == T("err", [T("kafka", [3])]):
            return fails
        F("create() with calls %s failed with %s; expected the consumer of %s" % (calls, dumps(res)[:80], sorted(A)))
        return fails
    with_leader = {tp for tp in A if topics[tp[0]][tp[1]] >= 0}
    # creation: group offsets are loaded for exactly the assigned set; earliest/latest offsets only for assigned topics
    listed = []
    for h, rq in _parsed(recs[m["ibuild"]]):
        if rq["api"] == "offset_fetch":
            cur = [(t["topic"], p) for t in rq["body"]["topics"] or [] for p in t["partitions"] or []]
            if sorted(cur) != sorted(A):
                F("group offsets loaded for %s, assigned is %s" % (sorted(cur), sorted(A)))
            listed.append(cur)
        elif rq["api"] in ("offsets", "list_offsets"):
            for t in rq["body"]["topics"] or []:
                if t["topic"] not in atopics:
                    F("offsets requested for topic %r which is not assigned" % t["topic"])
        elif rq["api"] in ("fetch", "offset_commit", "produce"):
            F("create() sent a %s request" % rq["api"])
    if m["group"] and not listed:
        F("a consumer with a group did not load the group's offsets")
    if not m["group"] and listed:
        F("a group-less consumer loaded group offsets")

    marks = {tp: committed[tp] - 1 for tp in A if tp in committed}
    dirty = set()
    pending = {}          # seeks not yet seen in a fetch
    prev = None           # (fetch offsets of the previous poll, partitions that received data or None if unknown)
    npolls = 0
    for i in range(m["ibuild"] + 1, len(recs)):
        rec = recs[i]
        op = rec["op"]
        res = rec["impl"]
        rqs = _parsed(rec)
        for h, rq in rqs:
            if rq["api"] == "fetch" and op.name != "poll":
                F("op %d %s sent a fetch" % (i, op.name))
            if rq["api"] == "offset_commit" and not (op.name == "consumer_op" and op.args[0].name == "commit_consumed"):
                F("op %d %s sent a commit" % (i, op.name))
        if op.name == "poll":
            npolls += 1
            seen = {}
            for h, rq in rqs:
                if rq["api"] != "fetch":
                    continue
                for t in rq["body"]["topics"] or []:
                    for p in t["partitions"] or []:
                        tp = (t["topic"], p["partition"])
                        if tp in seen:
                            F("poll %d fetches %r:%d twice" % (npolls, tp[0], tp[1]))
                        seen[tp] = p["offset"]
                        if tp not in A:
                            F("poll %d fetches %r:%d which is not assigned (assigned: %s)" % (npolls, tp[0], tp[1], sorted(A)))
                        elif tp not in with_leader:
                            F("poll %d fetches %r:%d which has no leader" % (npolls, tp[0], tp[1]))
            missing = with_leader - set(seen)
            if missing:
                F("poll %d does not fetch the assigned partitions %s" % (npolls, sorted(missing)))
            for tp, off in seen.items():
                if tp in pending:
                    if off != pending[tp]:
                        F("seek(%r:%d, %d) was accepted but the next fetch is at offset %d" % (tp[0], tp[1], pending[tp], off))
                elif prev is not None and prev[1] is not None and tp in prev[0] and tp not in prev[1]:
                    if off != prev[0][tp]:
                        F("fetch offset of %r:%d moved from %d to %d although nothing was delivered for it and it was not sought "
                          "(ops in between: %s)" % (tp[0], tp[1], prev[0][tp], off,
                                                    [dumps(recs[j]["op"])[:60] for j in range(max(m["ibuild"], i - 6), i)]))
            pending = {tp: o for tp, o in pending.items() if tp not in seen}
            if res.name == "ok":
                got = set()
                for s in res.args[0].args[1]:
                    if (s.args[0], s.args[1]) not in A:
                        F("poll %d delivered a message set of %r:%d which is not assigned" % (npolls, s.args[0], s.args[1]))
                    if s.args[2]:
                        got.add((s.args[0], s.args[1]))
                prev = (seen, got)
            else:
                prev = (seen, None)
        elif op.name == "consumer_op":
            sub = op.args[0]
            if sub.name == "subscriptions":
                if res.name != "ok":
                    F("subscriptions failed")
                    continue
                got = []
                for t in res.args[0]:
                    got += [(t.args[0], p) for p in t.args[1]]
                if len(got) != len(set(got)) or set(got) != A:
                    F("subscriptions = %s, assigned by %s is %s" % (sorted(got), calls, sorted(A)))
                if len(set(t.args[0] for t in res.args[0])) != len(res.args[0]):
                    F("subscriptions lists a topic twice")
            elif sub.name == "last_consumed_message":
                tp = (sub.args[0], sub.args[1])
                want = T("ok", [T("some", [marks[tp]]) if tp in A and tp in marks else T("none")])
                if res != want:
                    F("last_consumed_message(%r:%d) = %s, expected %s (%s)" % (tp[0], tp[1], dumps(res), dumps(want),
                                                                             "assigned" if tp in A else "not assigned"))
            elif sub.name == "seek":
                tp = (sub.args[0], sub.args[1])
                if tp in A:
                    if res.name != "ok":
                        F("seek on the assigned %r:%d failed: %s" % (tp[0], tp[1], dumps(res)[:60]))
                    else:
                        pending[tp] = sub.args[2]
                elif res.name != "err":
                    F("seek(%r:%d) returned %s although the consumer does not consume it (assigned: %s)" % (tp[0], tp[1], dumps(res), sorted(A)))
            elif sub.name == "consume_message":
                tp = (sub.args[0], sub.args[1])
                if tp in A:
                    if res.name != "ok":
                        F("consume_message on the assigned %r:%d failed: %s" % (tp[0], tp[1], dumps(res)[:60]))
                    elif tp not in marks or sub.args[2] > marks[tp]:
                        marks[tp] = sub.args[2]
                        dirty.add(tp)
                elif res.name != "err":
                    F("consume_message(%r:%d) returned %s although the consumer does not consume it (assigned: %s)"
                      % (tp[0], tp[1], dumps(res), sorted(A)))
            elif sub.name == "commit_consumed":
                want = {tp: marks[tp] + 1 for tp in dirty}
                for h, rq in rqs:
                    if rq["api"] != "offset_commit":
                        continue
                    cur = {}
                    for t in rq["body"]["topics"] or []:
                        for p in t["partitions"] or []:
                            cur[(t["topic"], p["partition"])] = p["offset"]
                    for tp in cur:
                        if tp not in A:
                            F("commit lists %r:%d which is not assigned" % (tp[0], tp[1]))
                    if cur != want:
                        F("commit lists %s, marked since the last commit: %s" % (sorted(cur.items()), sorted(want.items())))
                if res.name == "ok":
                    dirty = set()
                else:
                    F("commit_consumed failed: %s" % dumps(res)[:60])
    if len(recs) < len(case["ops"]) and not fails:
        F("case aborted early at op %d" % len(recs))
    return fails[:6]


def nontrivial(case, recs):
    m = case["meta"]
    if len(recs) != len(case["ops"]) or len(recs) <= m["ibuild"]:
        return False
    if recs[m["ibuild"]]["impl"].name == "err":
        return assigned_set([(t, ps) for (t, ps) in m["calls"]], case["cluster"]["topics"])[0] == "err"
    return m["nforeign"] > 0 and m["npositive"] > 0


def stats(case, recs):
    m = case["meta"]
    calls = [(t, ps) for (t, ps) in m["calls"]]
    topics = case["cluster"]["topics"]
    s = {"kind:" + m["kind"]: 1, "group:%s" % (("zookeeper" if m["storage"] == 0 else "kafka") if m["group"] else "none"): 1,
         "metadata_topics:%d" % len(topics): 1, "assigned_topics:%d" % len(effective(calls)): 1,
         "foreign_pairs": m["nforeign"], "marked_topics": m["npositive"]}
    if len(recs) > m["ibuild"]:
        r = recs[m["ibuild"]]["impl"]
        s["create:" + (r.name if r.name != "err" else dumps(r))] = 1
    if len(calls) != len(effective(calls)):
        s["overriding_calls"] = 1
    if any(ps is not None and len(ps) != len(set(ps)) for _, ps in calls):
        s["duplicate_ids"] = 1
    if any(ps is not None and list(ps) != sorted(ps) for _, ps in calls):
        s["unsorted_ids"] = 1
    if any(ps == [] for _, ps in calls):
        s["empty_list"] = 1
    if any(l < 0 for ls in topics.values() for l in ls):
        s["leaderless_partitions"] = 1
    if any(any(b >= 0x80 for b in t) for t, _ in calls):
        s["non_ascii_assigned"] = 1
    return s
