"""C16: every client, producer and consumer setting takes effect, in any builder order."""
import itertools

import struct
import kproto
from val import T, dumps
from props.common import brokers, fp, host, pm

SLICE = "KafkaClient setters/getters, consumer::Builder::create, producer::Builder::{with_partitioner,create}, to_millis_i32; settings as seen in request headers/bodies and in retry / reconnect / CRC behaviour"
RULE = ("three families: (1) client: client_new, a seeded random sequence of setters (every option, boundary values, repeats) with get_config after each, then "
        "metadata load and observation calls (fetch with a falsified-CRC message - plain, a gzip / snappy batch whose own checksum is off by a bit, a message inside a batch, in turn -, produce, group offset fetch, commit; or group calls against a coordinator "
        "scripted to answer 15 / a commit scripted to answer 14, to count attempts); (2) consumer builder and (3) producer builder: from hosts or from a client "
        "pre-configured by setters, a seeded random subset of the options with 1-2 values each (the same option repeated: last wins), calls shuffled, "
        "with_partitioner at a random position (once or twice); thorough tier additionally all permutations of seeded 3-4 call lists; get_config after the build; "
        "consumer scenarios: falsified-CRC poll + consume + commit, oversized first entry with small max_bytes (retry byte limit), commit attempts, attempts at creation; "
        "producer scenario: one or two send_all; durations around 2^31-1 ms, 2^32 ms and u64::MAX s. non-trivial = at least two builder calls / setters "
        "changed a default or the build was rejected for an invalid duration")
ASSUMPTIONS = ["the value read back for fetch_max_wait_time is the value set rounded down to whole milliseconds (the unit of the wire field and of the stored setting)",
               "idle time-outs used are 0 or >= 60 s, so that 'expired' does not depend on the speed of the run",
               "retry_backoff_time has no setter in the harness op set and is not compared"]
EXHAUSTIVE = False

T1 = b"t1"
H1, H2 = host(1), host(2)
IMAX = 2 ** 31 - 1
U64 = 2 ** 64 - 1
EVIL = b"EVIL"
DEFAULTS = {"client_id": b"", "compression": 0, "max_wait": 100, "min_bytes": 4096, "max_bytes": 32768, "crc": 1, "storage": -1,
            "attempts": 1200, "idle": (540, 0)}
VALID_DUR = [(0, 0), (0, 1000000), (0, 100000000), (1, 500000000), (30, 0), (2147483, 647000000), (0, 999999), (2147483, 647999999)]
INVALID_DUR = [(2147483, 648000000), (2147484, 0), (4294967, 296000000), (U64, 0), (U64, 999999999), (4294967, 297000000)]
IDS = [b"", b"c", b"my-client", "clïent-€".encode(), b"x" * 200, b"a b"]
IDLES = [(0, 0), (60, 0), (540, 0), (U64, 999999999)]


def dur_ms(d):
    ms = min(d[0] * 1000, U64) + d[1] // 1000000
    return ms if ms <= IMAX else None


# ---- reference semantics of the settings -----------------------------------------------------------------------------

def ref_setter(cfg, op):
    n, a = op.name, op.args
    if n == "set_client_id":
        cfg["client_id"] = a[0]
    elif n == "set_compression":
        cfg["compression"] = a[0]
    elif n == "set_fetch_max_wait_time":
        ms = dur_ms((a[0], a[1]))
        if ms is None:
            return T("err", [T("invalid_duration")])
        cfg["max_wait"] = ms
    elif n == "set_fetch_min_bytes":
        cfg["min_bytes"] = a[0]
    elif n == "set_fetch_max_bytes_per_partition":
        cfg["max_bytes"] = a[0]
    elif n == "set_fetch_crc_validation":
        cfg["crc"] = 1 if a[0] else 0
    elif n == "set_group_offset_storage":
        cfg["storage"] = a[0]
    elif n == "set_retry_max_attempts":
        cfg["attempts"] = a[0]
    elif n == "set_connection_idle_timeout":
        cfg["idle"] = (a[0], a[1])
    else:
        raise ValueError(n)
    return T("ok", [[]])


def ref_consumer(client_cfg, calls):
    """-> (effective client config, consumer config, expected build error or None)"""
    cfg = dict(client_cfg if client_cfg is not None else DEFAULTS)
    cc = {"group": b"", "fallback": T("latest"), "retry_limit": 0, "topics": {}}
    wait = None
    for c in calls:
        n, a = c.name, c.args
        if n == "with_group":
            cc["group"] = a[0]
        elif n == "with_topic":
            cc["topics"][a[0]] = []
        elif n == "with_topic_partitions":
            cc["topics"][a[0]] = list(a[1])
        elif n == "with_fallback_offset":
            cc["fallback"] = a[0]
        elif n == "with_fetch_max_wait_time":
            wait = (a[0], a[1])
        elif n == "with_fetch_min_bytes":
            cfg["min_bytes"] = a[0]
        elif n == "with_fetch_max_bytes_per_partition":
            cfg["max_bytes"] = a[0]
        elif n == "with_fetch_crc_validation":
            cfg["crc"] = 1 if a[0] else 0
        elif n == "with_offset_storage":
            cfg["storage"] = a[0]
        elif n == "with_retry_max_bytes_limit":
            cc["retry_limit"] = a[0]
        elif n == "with_connection_idle_timeout":
            cfg["idle"] = (a[0], a[1])
        elif n == "with_client_id":
            cfg["client_id"] = a[0]
        else:
            raise ValueError(n)
    err = None
    if not cc["topics"]:
        err = T("no_topics_assigned")
    elif wait is not None:
        ms = dur_ms(wait)
        if ms is None:
            err = T("invalid_duration")
        else:
            cfg["max_wait"] = ms
    if err is None and cc["group"] and cfg["storage"] == -1:
        err = T("unset_offset_storage")
    return cfg, cc, err


def ref_producer(client_cfg, calls):
    cfg = dict(client_cfg if client_cfg is not None else DEFAULTS)
    pc = {"acks": 1, "timeout": 30000}
    tmo = None
    for c in calls:
        n, a = c.name, c.args
        if n == "with_compression":
            cfg["compression"] = a[0]
        elif n == "with_ack_timeout":
            tmo = (a[0], a[1])
        elif n == "with_connection_idle_timeout":
            cfg["idle"] = (a[0], a[1])
        elif n == "with_required_acks":
            pc["acks"] = a[0]
        elif n == "with_client_id":
            cfg["client_id"] = a[0]
        elif n == "with_partitioner":
            pass
        else:
            raise ValueError(n)
    err = None
    if tmo is not None:
        ms = dur_ms(tmo)
        if ms is None:
            err = T("invalid_duration")
        else:
            pc["timeout"] = ms
    return cfg, pc, err


def config_view(cfg):
    return {"client_id": cfg["client_id"], "compression": cfg["compression"],
            "fetch_max_wait_time": [cfg["max_wait"] // 1000, (cfg["max_wait"] % 1000) * 1000000],
            "fetch_min_bytes": cfg["min_bytes"], "fetch_max_bytes_per_partition": cfg["max_bytes"], "fetch_crc_validation": cfg["crc"],
            "group_offset_storage": cfg["storage"], "retry_max_attempts": cfg["attempts"], "connection_idle_timeout": list(cfg["idle"])}


# ---- generators --------------------------------------------------------------------------------------------------------

def cluster_spec(scenario, coord, committed):
    if scenario == "retry_limit":
        logs = {(T1, 0): [("plain", 0, None, b"B" * 100), ("plain", 1, None, b"x")]}
        spec = {"brokers": brokers(2), "topics": {T1: [1]}, "logs": logs}
    else:
        logs = {(T1, 0): [("plain", 2, None, b"a"), ("plain", 3, None, b"b"), ("plain", 4, b"k", b"c")]}
        spec = {"brokers": brokers(2), "topics": {T1: [1]}, "logs": logs, "log_start": {(T1, 0): 2}, "by_time": {(T1, 0): 3}}
    spec["coordinator"] = {b"g": coord, b"grp-2": coord}
    if committed:
        spec["committed"] = {b"g": {(T1, 0): 3}}
    return spec


_LAYOUT = [0]


def bad_crc_mutation():
    """a fetch answer holding a message whose CRC does not fit; the layouts take turns: a plain message, a gzip / snappy batch whose OWN
    checksum is off by one bit (its content is intact), a gzip batch holding the falsified message"""
    k = _LAYOUT[0] % 5
    _LAYOUT[0] += 1
    good, evil = kproto.encode_message(8, None, b"good"), kproto.encode_message(9, b"q", EVIL)
    if k in (0, 3):
        ms = good + kproto.encode_message(9, b"q", EVIL, crc=12345)
        if k == 3:
            ms = kproto.encode_message(9, None, kproto.gzip_compress(ms), attr=1)
    else:
        inner = good + evil
        v = kproto.gzip_compress(inner) if k in (1, 4) else kproto.snappy_xerial_compress(inner)
        w = kproto.encode_message(9, None, v, attr=1 if k in (1, 4) else 2)
        crc = struct.unpack(">I", w[12:16])[0] ^ (1 << (7 if k == 4 else 0))
        ms = kproto.encode_message(9, None, v, attr=1 if k in (1, 4) else 2, crc=crc)
    return {"api": "fetch", "kind": "body",
            "body": {"topics": [{"topic": T1, "partitions": [{"partition": 0, "error": 0, "highwatermark": 10, "message_set": ms}]}]}}


def pick_vals(rng, pool, repeat_p=0.3):
    k = 2 if rng.random() < repeat_p and len(pool) > 1 else 1
    return rng.sample(pool, k)


def wrapping_duration(rng):
    """a duration far beyond the field whose millisecond count is small modulo 2^64 (or modulo 2^32): k*2^w + m ms"""
    w = rng.choice([64, 64, 64, 32])
    m = rng.choice([0, 7, 384, rng.randint(0, IMAX)])
    k = rng.randint(1, 999) if w == 64 else rng.randint(1, 2 ** 31)
    total = k * 2 ** w + m
    return (total // 1000, (total % 1000) * 1000000 + rng.choice([0, 0, 999999]))


def durations(rng, invalid):
    if not invalid:
        return list(VALID_DUR)
    # the fixed boundary values plus values that only a wrapping (not saturating) conversion would accept
    return VALID_DUR + INVALID_DUR + [(U64 // 1000 + 1, 0), (1 << 61, 7000000)] + [wrapping_duration(rng) for _ in range(3)]


def client_setters(rng, invalid=False, n=None, force=None):
    """a random sequence of setters; force: {option: [allowed values]} restricting pools"""
    force = force or {}
    pools = {
        "set_client_id": [[x] for x in IDS],
        "set_compression": [[0], [1], [2]],
        "set_fetch_max_wait_time": [list(d) for d in durations(rng, invalid)],
        "set_fetch_min_bytes": [[0], [1], [7], [4096], [IMAX], [-1]],
        "set_fetch_max_bytes_per_partition": [[1024], [32768], [1000000], [IMAX]],
        "set_fetch_crc_validation": [[0], [1]],
        "set_group_offset_storage": [[-1], [0], [1]],
        "set_retry_max_attempts": [[0], [1], [2], [3], [5]],
        "set_connection_idle_timeout": [list(d) for d in IDLES],
    }
    pools.update(force)
    ops = []
    for name, pool in pools.items():
        if name in force or rng.random() < (0.55 if n is None else n):
            for v in pick_vals(rng, pool):
                ops.append(T(name, v))
    rng.shuffle(ops)
    return ops


def consumer_calls(rng, scenario, invalid=False):
    pools = {
        "with_group": [[b""], [b"g"], [b"grp-2"]],
        "with_fallback_offset": [[T("earliest")], [T("latest")], [T("bytime", [1234])]],
        "with_fetch_max_wait_time": [list(d) for d in durations(rng, invalid)],
        "with_fetch_min_bytes": [[0], [1], [7], [4096], [IMAX], [-1]],
        "with_fetch_max_bytes_per_partition": [[1024], [32768], [1000000], [IMAX]],
        "with_fetch_crc_validation": [[0], [1]],
        "with_offset_storage": [[-1], [0], [1]],
        "with_retry_max_bytes_limit": [[0], [64], [200], [IMAX]],
        "with_connection_idle_timeout": [list(d) for d in IDLES],
        "with_client_id": [[x] for x in IDS],
    }
    must = set()
    if scenario == "retry_limit":
        pools["with_fetch_max_bytes_per_partition"] = [[40], [64], [70]]
        pools["with_retry_max_bytes_limit"] = [[0], [30], [64], [100], [128], [200], [IMAX]]
        pools["with_fallback_offset"] = [[T("earliest")]]
        must = {"with_fetch_max_bytes_per_partition", "with_fallback_offset", "with_retry_max_bytes_limit"}
    if scenario in ("attempts_commit", "attempts_build"):
        pools["with_group"] = [[b"g"], [b"grp-2"]]
        pools["with_offset_storage"] = [[0], [1]]
        must = {"with_group", "with_offset_storage"}
    calls = []
    for name, pool in pools.items():
        if name in must or rng.random() < 0.55:
            for v in pick_vals(rng, pool):
                calls.append(T(name, v))
    calls.append(T("with_topic", [T1]) if rng.random() < 0.6 else T("with_topic_partitions", [T1, [0]]))
    if rng.random() < 0.15:
        calls.append(T("with_topic", [T1]))
    rng.shuffle(calls)
    return calls


def producer_calls(rng, invalid=False):
    pools = {
        "with_compression": [[0], [1], [2]],
        "with_ack_timeout": [list(d) for d in durations(rng, invalid)],
        "with_connection_idle_timeout": [list(d) for d in IDLES],
        "with_required_acks": [[0], [1], [-1]],
        "with_client_id": [[x] for x in IDS],
    }
    calls = []
    for name, pool in pools.items():
        if rng.random() < 0.6:
            for v in pick_vals(rng, pool):
                calls.append(T(name, v))
    for _ in range(rng.choice([0, 1, 1, 2])):
        calls.append(T("with_partitioner"))
    rng.shuffle(calls)
    return calls


def consumer_tail(scenario, ccfg, cc):
    """observation ops after a successful consumer build"""
    ops = [T("get_config")]
    if scenario == "crc":
        ops.append({"op": T("poll"), "mutate": bad_crc_mutation()})
        if ccfg["crc"] == 0:
            ops += [T("consume_messageset", [0])]
        else:
            ops += [T("poll"), T("consume_messageset", [0])]
        ops.append(T("consumer_op", [T("commit_consumed")]))
    elif scenario == "retry_limit":
        ops += [T("poll"), T("poll"), T("poll")]
    elif scenario == "attempts_commit":
        ops += [T("poll"), T("consume_messageset", [0]), T("consumer_op", [T("commit_consumed")])]
    return ops


def make_consumer_case(rng, scenario, calls=None, route=None, invalid=None):
    route = route or rng.choice(["hosts", "client"])
    if scenario in ("attempts_commit", "attempts_build"):
        route = "client"
    invalid = (rng.random() < 0.12) if invalid is None else invalid
    coord = rng.choice([1, 2])
    spec = cluster_spec(scenario, coord, committed=rng.random() < 0.5)
    ops = []
    client_cfg = None
    if route == "client":
        force = {}
        if scenario == "attempts_commit":
            spec["retry_code"] = rng.choice([14, 16])
            spec["commit_script"] = [spec["retry_code"]] * 8
            force = {"set_retry_max_attempts": [[0], [1], [2], [3], [5]]}
        if scenario == "attempts_build":
            spec["coordinator_script"] = {b"g": [15] * 8, b"grp-2": [15] * 8}
            force = {"set_retry_max_attempts": [[0], [1], [2], [3], [5]]}
        if scenario == "retry_limit":
            force = {"set_fetch_max_bytes_per_partition": [[40], [64], [1024]]}
        setters = client_setters(rng, invalid=False, n=0.4, force=force)
        ops = [T("client_new", [[H1, H2]])] + setters + [T("load_metadata_all")]
    build_at = len(ops)
    if route == "client":
        client_cfg = dict(DEFAULTS)
        for s in ops[1:build_at - 1]:
            ref_setter(client_cfg, s)
    if calls is None:
        calls = consumer_calls(rng, scenario, invalid)
        _, _, err = ref_consumer(client_cfg, calls)
        if err is not None and err.name == "unset_offset_storage" and rng.random() < 0.8:
            # a group without offset storage is rejected at creation: keep a fifth of these, give the others a storage
            last = max([i for i, c in enumerate(calls) if c.name == "with_offset_storage"] + [-1])
            calls.insert(rng.randint(last + 1, len(calls)), T("with_offset_storage", [rng.choice([0, 1])]))
    ops.append(T("consumer_build", [T("from_client") if route == "client" else T("from_hosts", [[H1, H2]]), calls]))
    ccfg, cc, err = ref_consumer(client_cfg, calls)
    if err is None and scenario != "attempts_build":
        ops += consumer_tail(scenario, ccfg, cc)
    return {"cluster": spec, "ops": ops, "meta": {"family": "consumer", "scenario": scenario, "route": route, "build_at": build_at}}


def make_producer_case(rng, calls=None, route=None, invalid=None):
    route = route or rng.choice(["hosts", "client"])
    invalid = (rng.random() < 0.12) if invalid is None else invalid
    spec = cluster_spec("send", 1, False)
    ops = []
    if route == "client":
        ops = [T("client_new", [[H1, H2]])] + client_setters(rng, invalid=False, n=0.4) + [T("load_metadata_all")]
    calls = calls if calls is not None else producer_calls(rng, invalid)
    build_at = len(ops)
    ops.append(T("producer_build", [T("from_client") if route == "client" else T("from_hosts", [[H1, H2]]), calls]))
    client_cfg = None
    if route == "client":
        client_cfg = dict(DEFAULTS)
        for s in ops[1:build_at - 1]:
            ref_setter(client_cfg, s)
    pcfg, pc, err = ref_producer(client_cfg, calls)
    if err is None:
        ops.append(T("get_config"))
        ops.append(T("send_all", [[T("r", [T1, 0, b"k", b"v1"]), T("r", [T1, -1, b"", b"v2" * 20])]]))
        if rng.random() < 0.5:
            ops.append(T("send_all", [[T("r", [T1, -1, b"kk", b"v3"])]]))
    return {"cluster": spec, "ops": ops, "meta": {"family": "producer", "scenario": "send", "route": route, "build_at": build_at}}


def make_client_case(rng, scenario):
    coord = rng.choice([1, 2])
    spec = cluster_spec(scenario, coord, committed=rng.random() < 0.5)
    force = {}
    if scenario == "client_attempts":
        if rng.random() < 0.5:
            spec["coordinator_script"] = {b"g": [15] * 12}
        else:
            # either retryable answer of the operation itself: still loading (14), not the coordinator (16; every repetition is
            # preceded by a fresh lookup, which the cluster answers with the same broker)
            spec["retry_code"] = rng.choice([14, 16])
            spec["commit_script"] = [spec["retry_code"]] * 8
            spec["group_fetch_script"] = [spec["retry_code"]] * 8
        force = {"set_retry_max_attempts": [[0], [1], [2], [3], [5]], "set_group_offset_storage": [[0], [1]]}
    setters = client_setters(rng, invalid=rng.random() < 0.3, force=force)
    ops = [T("client_new", [[H1, H2]])]
    for s in setters:
        ops += [s, T("get_config")]
    ops.append(T("load_metadata_all"))
    if scenario == "client_observe":
        ops.append({"op": T("fetch_messages", [[fp(T1, 0, 2)]]), "mutate": bad_crc_mutation()})
        ops.append(T("produce_messages", [rng.choice([1, -1]), 1, 500000000, [pm(T1, 0, b"k", b"v1"), pm(T1, 0, None, b"v2" * 20)]]))
        ops.append(T("fetch_group_topic_offset", [b"g", T1]))
        ops.append(T("commit_offsets", [b"g", [T("co", [T1, 0, 4])]]))
        ops.append(T("fetch_group_offsets", [b"g", [T("fgo", [T1, 0])]]))
    else:
        ops.append(T("fetch_group_topic_offset", [b"g", T1]))
        ops.append(T("commit_offsets", [b"g", [T("co", [T1, 0, 4])]]))
    return {"cluster": spec, "ops": ops, "meta": {"family": "client", "scenario": scenario, "route": "client", "build_at": 0}}


def make_idle_case(rng):
    """the idle time-out is about idleness: requests 1.6 s apart on a connection whose time-out is 3 s never reconnect, although the
    third one is sent 3.2 s after the connection was opened (real time passes in the harness; the margin is 1.4 s)"""
    coord = rng.choice([1, 2])
    spec = cluster_spec("client_observe", coord, committed=True)
    ops = [T("client_new", [[H1, H2]]), T("set_connection_idle_timeout", [3, 0]), T("get_config"), T("load_metadata_all")]
    prod = lambda i: T("produce_messages", [1, 1, 500000000, [pm(T1, 0, b"k", b"idle%d" % i)]])
    ops += [prod(0), T("sleep_ms", [1600]), prod(1), T("sleep_ms", [1600]), prod(2), T("sleep_ms", [1600]), prod(3)]
    return {"cluster": spec, "ops": ops, "meta": {"family": "client", "scenario": "client_idle", "route": "client", "build_at": 0}}


def small_call_sets(rng, family, n):
    """seeded lists of 3-4 builder calls that interact (repeats, client id vs with_partitioner, crc, durations)"""
    out = []
    for _ in range(n):
        if family == "producer":
            pool = [T("with_client_id", [rng.choice(IDS[1:])]), T("with_partitioner"), T("with_compression", [rng.choice([1, 2])]),
                    T("with_required_acks", [rng.choice([0, -1])]), T("with_ack_timeout", list(rng.choice(VALID_DUR + INVALID_DUR[:2]))),
                    T("with_client_id", [rng.choice(IDS)]), T("with_partitioner"), T("with_ack_timeout", list(rng.choice(VALID_DUR))),
                    T("with_connection_idle_timeout", list(rng.choice(IDLES)))]
            k = rng.choice([3, 4])
            calls = rng.sample(pool, k)
        else:
            pool = [T("with_client_id", [rng.choice(IDS[1:])]), T("with_fetch_crc_validation", [0]), T("with_fetch_crc_validation", [1]),
                    T("with_group", [rng.choice([b"g", b"grp-2"])]), T("with_offset_storage", [rng.choice([0, 1])]),
                    T("with_fetch_max_wait_time", list(rng.choice(VALID_DUR + INVALID_DUR[:2]))), T("with_fetch_max_wait_time", list(rng.choice(VALID_DUR))),
                    T("with_fetch_min_bytes", [rng.choice([0, 7, IMAX])]), T("with_fallback_offset", [rng.choice([T("earliest"), T("latest")])]),
                    T("with_connection_idle_timeout", list(rng.choice(IDLES)))]
            k = rng.choice([2, 3])
            calls = rng.sample(pool, k) + [T("with_topic", [T1])]
        out.append(calls)
    return out


def gen(rng, tier):
    _LAYOUT[0] = 0
    quick = tier == "quick"
    cases = []
    for _ in range(140 if quick else 2500):
        cases.append(make_client_case(rng, "client_observe"))
    for _ in range(50 if quick else 800):
        cases.append(make_client_case(rng, "client_attempts"))
    for _ in range(2 if quick else 6):
        cases.append(make_idle_case(rng))
    for scenario, n in (("crc", 200), ("retry_limit", 70), ("attempts_commit", 40), ("attempts_build", 30)):
        for _ in range(n if quick else n * 15):
            cases.append(make_consumer_case(rng, scenario))
    for _ in range(200 if quick else 3000):
        cases.append(make_producer_case(rng))
    # permutations of small call lists
    for family in ("consumer", "producer"):
        for calls in small_call_sets(rng, family, 12 if quick else 60):
            perms = list(itertools.permutations(calls))
            if quick:
                perms = rng.sample(perms, 3)
            route = rng.choice(["hosts", "client"])
            state = rng.getstate()
            for p in perms:
                rng.setstate(state)        # the same cluster / pre-configured client for every order of the calls
                if family == "consumer":
                    c = make_consumer_case(rng, "crc", calls=list(p), route=route)
                else:
                    c = make_producer_case(rng, calls=list(p), route=route)
                c["meta"]["perm"] = True
                cases.append(c)
    return cases


# ---- oracle ------------------------------------------------------------------------------------------------------------------

def reqs_of(rec):
    out = []
    for h, payload in rec["requests"]:
        try:
            out.append((h, kproto.parse_request(payload)))
        except kproto.ProtoError:
            out.append((h, None))
    return out


def check_config(res, cfg, tag):
    if res.name != "ok":
        return ["C16: %s: get_config failed" % tag]
    got = {e.name: e.args[0] for e in res.args[0]}
    fails = []
    for k, v in config_view(cfg).items():
        if got.get(k) != v:
            fails.append("C16: %s: %s reads back as %s, the value in force must be %s" % (tag, k, dumps(got.get(k))[:60] if k in got else "?", dumps(v)[:60]))
    return fails


def check_ids(recs, lo, hi, cid, tag):
    fails = []
    for i in range(lo, min(hi, len(recs))):
        for h, rq in reqs_of(recs[i]):
            if rq is None:
                fails.append("C16: %s: op %d sent an unparseable request" % (tag, i))
            elif rq["client_id_raw"] != cid:
                fails.append("C16: %s: %s request of op %d (%s) carries client id %r, configured is %r" %
                             (tag, rq["api"], i, recs[i]["op"].name, rq["client_id_raw"], cid))
                return fails
    return fails


def check_idle(recs, lo, idle, tag, connected=None):
    """idle time-out 0: every request goes over a fresh connection; large: a host is connected at most once"""
    fails = []
    connected = set() if connected is None else connected
    for i in range(lo, len(recs)):
        fresh = set()
        for ev in recs[i]["raw_events"]:
            if ev.name == "connect" and ev.args[1] == 1:
                h = ev.args[0]
                if tuple(idle) != (0, 0) and h in connected:
                    fails.append("C16: %s: op %d (%s) reconnects to %r although the idle time-out is %s s" % (tag, i, recs[i]["op"].name, h, idle[0]))
                    return fails
                connected.add(h)
                fresh.add(h)
            elif ev.name == "write":
                h = ev.args[0]
                if tuple(idle) == (0, 0) and h not in fresh:
                    fails.append("C16: %s: op %d (%s) re-uses the connection to %r although the idle time-out is 0" % (tag, i, recs[i]["op"].name, h))
                    return fails
                fresh.discard(h)
    return fails


def codec_of(message_set):
    ms = kproto.parse_message_set(message_set or b"")
    return sorted(set(m["attr"] & 7 for m in ms))


def delivered(res):
    return res.name == "ok" and EVIL.hex() in dumps(res)


def expected_start(spec, group, fallback):
    c = spec.get("committed", {}).get(group) if group else None
    if c and (T1, 0) in c:
        return c[(T1, 0)]
    if fallback.name == "earliest":
        return 2
    if fallback.name == "latest":
        return 5
    return spec["by_time"][(T1, 0)]


def oracle(case, recs, cl):
    m = case["meta"]
    fails = (oracle_client if m["family"] == "client" else oracle_built)(case, recs, cl)
    for r in recs:
        if r["impl"].name in ("panic", "hang", "abort"):
            fails.insert(0, "C16: op %s ended in %s" % (r["op"].name, dumps(r["impl"])[:120]))
        elif r["impl"].name == "harness_error" and not fails:
            fails.append("C16: case could not be completed: %s" % dumps(r["impl"])[:120])
    return fails[:5]


def op_of(item):
    return item["op"] if isinstance(item, dict) else item


def oracle_client(case, recs, cl):
    m = case["meta"]
    fails = []
    cfg = dict(DEFAULTS)
    ops = [op_of(x) for x in case["ops"]]
    i = 1
    while i < len(ops) and ops[i].name != "load_metadata_all":
        if i >= len(recs):
            return fails + ["C16: client: case aborted early"]
        op = ops[i]
        if op.name == "get_config":
            fails += check_config(recs[i]["impl"], cfg, "client after %s" % dumps(ops[i - 1])[:60])
        else:
            want = ref_setter(cfg, op)
            if recs[i]["impl"] != want:
                fails.append("C16: client: %s returned %s, expected %s" % (dumps(op)[:80], dumps(recs[i]["impl"])[:60], dumps(want)))
        i += 1
    if fails:
        return fails
    if len(recs) < len(ops):
        return ["C16: client: case aborted early at op %d" % len(recs)]
    fails += check_ids(recs, 0, len(recs), cfg["client_id"], "client")
    fails += check_idle(recs, 0, cfg["idle"], "client")
    L = max(1, cfg["attempts"])
    spec = case["cluster"]
    for j in range(i + 1, len(ops)):
        op, rec = ops[j], recs[j]
        res = rec["impl"]
        rq = reqs_of(rec)
        if op.name == "fetch_messages":
            f = [q for _, q in rq if q and q["api"] == "fetch"]
            if len(f) != 1:
                fails.append("C16: client: %d fetch requests for one fetch_messages" % len(f))
                continue
            b = f[0]["body"]
            p = b["topics"][0]["partitions"][0]
            if (b["max_wait"], b["min_bytes"], p["max_bytes"]) != (cfg["max_wait"], cfg["min_bytes"], cfg["max_bytes"]):
                fails.append("C16: client: fetch request carries max_wait/min_bytes/max_bytes %s, configured %s" %
                             ((b["max_wait"], b["min_bytes"], p["max_bytes"]), (cfg["max_wait"], cfg["min_bytes"], cfg["max_bytes"])))
            if delivered(res) != (cfg["crc"] == 0):
                fails.append("C16: client: CRC validation is %s but the message with a falsified CRC was %s" %
                             ("on" if cfg["crc"] else "off", "delivered" if delivered(res) else "not delivered: " + dumps(res)[:60]))
        elif op.name == "produce_messages":
            f = [q for _, q in rq if q and q["api"] == "produce"]
            if len(f) != 1:
                fails.append("C16: client: %d produce requests for one produce_messages" % len(f))
                continue
            b = f[0]["body"]
            if (b["acks"], b["timeout"]) != (op.args[0], 1500):
                fails.append("C16: client: produce request carries acks/timeout %s, the call said %s" % ((b["acks"], b["timeout"]), (op.args[0], 1500)))
            cs = codec_of(b["topics"][0]["partitions"][0]["message_set"])
            if cs != [cfg["compression"]]:
                fails.append("C16: client: produce request uses codec %s, configured compression is %d" % (cs, cfg["compression"]))
        elif op.name in ("fetch_group_topic_offset", "fetch_group_offsets", "commit_offsets"):
            api = "offset_commit" if op.name == "commit_offsets" else "offset_fetch"
            if cfg["storage"] == -1:
                if res != T("err", [T("unset_offset_storage")]) or rq:
                    fails.append("C16: client: no offset storage configured but %s returned %s after %d requests" % (op.name, dumps(res)[:60], len(rq)))
                continue
            main = [q for _, q in rq if q and q["api"] == api]
            look = [q for _, q in rq if q and q["api"] == "group_coordinator"]
            if any(q["api_version"] != cfg["storage"] for q in main):
                fails.append("C16: client: %s sent as version %s, offset storage setting means version %d" % (api, [q["api_version"] for q in main], cfg["storage"]))
            if m["scenario"] == "client_attempts":
                scripted_lookup = "coordinator_script" in spec
                n = len(look) if scripted_lookup else len(main)
                want_code = 15 if scripted_lookup else spec.get("retry_code", 14)
                if n != L or res != T("err", [T("kafka", [want_code])]):
                    fails.append("C16: client: retry_max_attempts %d: %s made %d %s attempts against an always-%d answer and returned %s" %
                                 (cfg["attempts"], op.name, n, "lookup" if scripted_lookup else api, want_code, dumps(res)[:60]))
            elif res.name != "ok":
                fails.append("C16: client: %s failed: %s" % (op.name, dumps(res)[:60]))
    return fails


def oracle_built(case, recs, cl):
    m = case["meta"]
    fam = m["family"]
    spec = case["cluster"]
    ops = [op_of(x) for x in case["ops"]]
    b = m["build_at"]
    if len(recs) <= b:
        return ["C16: %s: case aborted before the build" % fam]
    fails = []
    client_cfg = None
    if m["route"] == "client":
        client_cfg = dict(DEFAULTS)
        for i in range(1, b - 1):
            want = ref_setter(client_cfg, ops[i])
            if recs[i]["impl"] != want:
                fails.append("C16: %s: %s returned %s" % (fam, dumps(ops[i])[:80], dumps(recs[i]["impl"])[:60]))
        fails += check_ids(recs, 0, b, client_cfg["client_id"], fam + " (pre-configured client)")
    calls = ops[b].args[1]
    tag = "%s from %s %s" % (fam, m["route"], " ".join(c.name[5:] + ("=" + dumps(c.args[0])[:14] if c.args else "") for c in calls))[:260]
    if fam == "consumer":
        cfg, cc, err = ref_consumer(client_cfg, calls)
    else:
        cfg, cc, err = ref_producer(client_cfg, calls)
    res = recs[b]["impl"]
    L = max(1, cfg["attempts"])
    # requests of the build carry the settings already
    connected = set()
    if m["route"] == "client":
        for i in range(b):
            for ev in recs[i]["raw_events"]:
                if ev.name == "connect" and ev.args[1] == 1:
                    connected.add(ev.args[0])
    if err is not None and err.name in ("invalid_duration", "no_topics_assigned"):
        if res != T("err", [err]):
            fails.append("C16: %s: build must be rejected with %s, got %s" % (tag, err.name, dumps(res)[:80]))
        if recs[b]["requests"]:
            fails.append("C16: %s: rejected build sent requests" % tag)
        return fails
    fails += check_ids(recs, b, len(recs), cfg["client_id"], tag)
    fails += check_idle(recs, b, cfg["idle"], tag, connected)
    brq = reqs_of(recs[b])
    if fam == "consumer":
        of = [q for _, q in brq if q and q["api"] == "offset_fetch"]
        look = [q for _, q in brq if q and q["api"] == "group_coordinator"]
        if err is not None:       # group without offset storage
            if res != T("err", [err]) or of or look:
                fails.append("C16: %s: group %r without offset storage: build must fail with unset_offset_storage before any group request, got %s" %
                             (tag, cc["group"], dumps(res)[:60]))
            return fails
        if m["scenario"] == "attempts_build":
            if len(look) != L or res != T("err", [T("kafka", [15])]) or any(q["body"]["group"] != cc["group"] for q in look):
                fails.append("C16: %s: retry_max_attempts %d of the client: creation made %d coordinator lookups for %r against an always-15 answer and returned %s" %
                             (tag, cfg["attempts"], len(look), cc["group"], dumps(res)[:60]))
            return fails
        if res.name != "ok":
            return fails + ["C16: %s: build failed: %s" % (tag, dumps(res)[:80])]
        if cc["group"]:
            if len(of) != 1 or of[0]["api_version"] != cfg["storage"] or of[0]["body"]["group"] != cc["group"]:
                fails.append("C16: %s: creation must fetch the offsets of group %r with offset_fetch v%d, saw %s" %
                             (tag, cc["group"], cfg["storage"], [(q["api_version"], q["body"]["group"]) for q in of]))
        elif of or look:
            fails.append("C16: %s: no group configured but creation sent group requests" % tag)
    else:
        if res.name != "ok":
            return fails + ["C16: %s: build failed: %s" % (tag, dumps(res)[:80])]
    if len(recs) < len(ops):
        return fails + ["C16: %s: case aborted early at op %d: %s" % (tag, len(recs), dumps(recs[-1]["impl"])[:80])]
    # observation ops
    start = expected_start(spec, cc["group"], cc["fallback"]) if fam == "consumer" and m["scenario"] != "retry_limit" else 0
    cur_max = cfg["max_bytes"]
    need = 12 + 14 + 100
    first_poll = True
    consumed_any = False
    last_poll = None
    for j in range(b + 1, len(ops)):
        op, rec = ops[j], recs[j]
        res = rec["impl"]
        rq = reqs_of(rec)
        if op.name == "poll":
            last_poll = res
        if op.name == "consume_messageset":
            if last_poll is not None and last_poll.name == "ok":
                sets = last_poll.args[0].args[1]
                if op.args[0] < len(sets) and sets[op.args[0]].args[2]:
                    consumed_any = True
            if res.name != "ok":
                fails.append("C16: %s: consume_messageset failed: %s" % (tag, dumps(res)[:60]))
        if op.name == "get_config":
            fails += check_config(res, cfg, tag)
        elif op.name == "poll":
            f = [q for _, q in rq if q and q["api"] == "fetch"]
            if len(f) != 1:
                fails.append("C16: %s: %d fetch requests for one poll" % (tag, len(f)))
                continue
            body = f[0]["body"]
            p = body["topics"][0]["partitions"][0]
            if (body["max_wait"], body["min_bytes"]) != (cfg["max_wait"], cfg["min_bytes"]):
                fails.append("C16: %s: fetch request carries max_wait/min_bytes %s, configured %s" %
                             (tag, (body["max_wait"], body["min_bytes"]), (cfg["max_wait"], cfg["min_bytes"])))
            if m["scenario"] == "retry_limit":
                if first_poll and p["offset"] != 0:
                    fails.append("C16: %s: first fetch at offset %d, expected 0 (fallback earliest)" % (tag, p["offset"]))
                first_poll = False
                if p["max_bytes"] != cur_max:
                    fails.append("C16: %s: poll asks for max_bytes %d, expected %d (configured %d, retry limit %d)" %
                                 (tag, p["max_bytes"], cur_max, cfg["max_bytes"], cc["retry_limit"]))
                    break
                if cur_max >= need:
                    want = "ok-data"
                    cur_max = cfg["max_bytes"]
                elif cur_max < cc["retry_limit"]:
                    want = "ok-empty"
                    cur_max = min(2 * cur_max, cc["retry_limit"])
                else:
                    want = "too-large"
                got = "too-large" if res == T("err", [T("kafka", [10])]) else \
                    ("ok-data" if res.name == "ok" and (b"B" * 100).hex() in dumps(res) else "ok-empty" if res.name == "ok" else dumps(res)[:40])
                if got != want:
                    fails.append("C16: %s: oversized entry with max_bytes %d and retry limit %d: poll gave %s, expected %s" %
                                 (tag, p["max_bytes"], cc["retry_limit"], got, want))
                    break
                if want == "too-large":
                    break
                continue
            if first_poll:
                first_poll = False
                if p["max_bytes"] != cfg["max_bytes"]:
                    fails.append("C16: %s: fetch request carries max_bytes %d, configured %d" % (tag, p["max_bytes"], cfg["max_bytes"]))
                if p["offset"] != start:
                    fails.append("C16: %s: first fetch at offset %d, expected %d (group %r, fallback %s)" %
                                 (tag, p["offset"], start, cc["group"], dumps(cc["fallback"])))
                if isinstance(case["ops"][j], dict):
                    if delivered(res) != (cfg["crc"] == 0):
                        fails.append("C16: %s: CRC validation is %s but the message with a falsified CRC was %s" %
                                     (tag, "on" if cfg["crc"] else "off", "delivered" if delivered(res) else "not delivered: " + dumps(res)[:60]))
        elif op.name == "consumer_op" and op.args[0].name == "commit_consumed":
            cm = [q for _, q in rq if q and q["api"] == "offset_commit"]
            if not cc["group"]:
                if res != T("err", [T("unset_group_id")]) or rq:
                    fails.append("C16: %s: commit without group must fail with unset_group_id, got %s" % (tag, dumps(res)[:60]))
                continue
            if not consumed_any:
                if res.name != "ok" or rq:
                    fails.append("C16: %s: nothing consumed, commit_consumed must be a no-op, got %s and %d requests" % (tag, dumps(res)[:60], len(rq)))
                continue
            if not cm or any(q["api_version"] != cfg["storage"] or q["body"]["group"] != cc["group"] for q in cm):
                fails.append("C16: %s: commit_consumed must send offset_commit v%d for group %r, saw %s" %
                             (tag, cfg["storage"], cc["group"], [(q["api_version"], q["body"]["group"]) for q in cm]))
            if m["scenario"] == "attempts_commit":
                code = spec.get("retry_code", 14)
                if len(cm) != L or res != T("err", [T("kafka", [code])]):
                    fails.append("C16: %s: retry_max_attempts %d of the client: commit_consumed made %d attempts against an always-%d answer and returned %s" %
                                 (tag, cfg["attempts"], len(cm), code, dumps(res)[:60]))
            elif res.name != "ok":
                fails.append("C16: %s: commit_consumed failed: %s" % (tag, dumps(res)[:60]))
        elif op.name == "send_all":
            f = [q for _, q in rq if q and q["api"] == "produce"]
            if len(f) != 1:
                fails.append("C16: %s: %d produce requests for one send_all" % (tag, len(f)))
                continue
            body = f[0]["body"]
            if (body["acks"], body["timeout"]) != (cc["acks"], cc["timeout"]):
                fails.append("C16: %s: produce request carries acks/timeout %s, configured %s" % (tag, (body["acks"], body["timeout"]), (cc["acks"], cc["timeout"])))
            cs = sorted(set(c for t in body["topics"] for p in t["partitions"] for c in codec_of(p["message_set"])))
            if cs != [cfg["compression"]]:
                fails.append("C16: %s: produce request uses codec %s, configured compression is %d" % (tag, cs, cfg["compression"]))
            if res.name != "ok" or (cc["acks"] == 0) != (res.args[0] == []):
                fails.append("C16: %s: send_all with acks %d returned %s" % (tag, cc["acks"], dumps(res)[:80]))
    return fails


def changed_settings(case):
    ops = [op_of(x) for x in case["ops"]]
    m = case["meta"]
    n = sum(1 for o in ops if o.name.startswith("set_"))
    if m["family"] != "client":
        n += len(ops[m["build_at"]].args[1])
    return n


def nontrivial(case, recs):
    m = case["meta"]
    if len(recs) <= m["build_at"]:
        return False
    return changed_settings(case) >= 2


def stats(case, recs):
    m = case["meta"]
    s = {"family:" + m["family"]: 1, "scenario:" + m["scenario"]: 1, "route:" + m["route"]: 1}
    if m.get("perm"):
        s["permutation_of_small_list"] = 1
    ops = [op_of(x) for x in case["ops"]]
    if m["family"] != "client":
        calls = ops[m["build_at"]].args[1]
        s["builder_calls"] = len(calls)
        names = [c.name for c in calls]
        s["repeated_option"] = 1 if len(set(names)) < len(names) else 0
        if "with_partitioner" in names:
            s["with_partitioner:%s" % ("first" if names[0] == "with_partitioner" else "last" if names[-1] == "with_partitioner" else "middle")] = 1
        for c in calls:
            s["opt:" + c.name] = s.get("opt:" + c.name, 0) + 1
        if len(recs) > m["build_at"]:
            r = recs[m["build_at"]]["impl"]
            s["build:" + (r.name if r.name == "ok" else dumps(r.args[0])[:30] if r.args else r.name)] = 1
    else:
        for o in ops:
            if o.name.startswith("set_"):
                s["opt:" + o.name] = s.get("opt:" + o.name, 0) + 1
    for j, r in enumerate(recs):
        o = r["op"]
        res = r["impl"]
        if o.name == "poll" or o.name == "fetch_messages":
            if isinstance(case["ops"][j], dict):
                s["falsified_crc:" + ("delivered" if delivered(res) else "rejected")] = 1
            elif m["scenario"] == "retry_limit":
                k = "too_large" if res == T("err", [T("kafka", [10])]) else "data" if res.name == "ok" and (b"B" * 100).hex() in dumps(res) else "empty_grow"
                s["oversized_poll:" + k] = s.get("oversized_poll:" + k, 0) + 1
        if o.name == "get_config" and res.name == "ok" and j == len(recs) - 1 or (o.name == "get_config" and m["family"] != "client"):
            got = {e.name: e.args[0] for e in res.args[0]} if res.name == "ok" else {}
            if got.get("connection_idle_timeout") == [0, 0]:
                s["idle_timeout_zero"] = 1
    for o in ops:
        if o.name in ("set_fetch_max_wait_time",):
            if dur_ms((o.args[0], o.args[1])) is None:
                s["invalid_duration_values"] = s.get("invalid_duration_values", 0) + 1
    if m["family"] != "client":
        for c in ops[m["build_at"]].args[1]:
            if c.name in ("with_fetch_max_wait_time", "with_ack_timeout") and dur_ms((c.args[0], c.args[1])) is None:
                s["invalid_duration_values"] = s.get("invalid_duration_values", 0) + 1
    return s
