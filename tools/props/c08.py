"""C08: commit persists last-consumed+1 for the changed partitions; a restarted consumer resumes there."""
import kproto
from val import T, dumps
from props import common
from props.common import boot_ops, brokers, known_safe_log

SLICE = "Consumer consume_message / consume_messageset / commit_consumed / last_consumed_message + Client commit_offsets, and State::new after a restart"
RULE = ("random consumers of a group over 1-2 topics x 1-3 partitions x 1-3 brokers (any broker as coordinator), both offset storages, "
        "fallback Earliest/Latest, random plain/gzip/snappy logs with gaps and random previously committed offsets (in and out of "
        "range); histories of 1-15 ops over {poll, consume_message (any retained offset, also lower than the mark, rarely beyond the "
        "log), consume_messageset k, commit_consumed, commit failing by a scripted whole-request error code (retriable 14/16 and "
        "fatal ones), by an error code on one partition only (others applied), by a failing write of the request, by a lost reply}, "
        "last_consumed_message probes; short histories (1-4 ops) are run once per prefix with a crash after it (drop + from_hosts, or "
        "into_client + from_client), long ones crash at 1-2 random points and continue in the new consumer; every consumer "
        "lifetime starts with last_consumed_message of every partition and a poll whose fetch offsets are compared with the "
        "coordinator's store. non-trivial = at least one offset-commit request with a partition was observed or a restart "
        "resumed from a stored offset")
ASSUMPTIONS = ["the reference coordinator (tools/cluster.py) stores a partition's offset iff it answers error 0 for it; the oracle "
               "rebuilds the store from the request/reply pairs it saw and cross-checks it with the cluster's store at the end",
               "a commit counts as successful iff commit_consumed returned Ok",
               "after a lost commit reply the connection is not used again except for one more commit (the client keeps a "
               "connection whose reply it failed to read: known finding F17, property C15)"]
EXHAUSTIVE = False

G = b"g"
FATAL = [12, 22, 25, 27, 28, 29, 30, -1, 3, 15, 99]
RETRY = [14, 16]
IOKINDS = ["timeout", "other", "eof", "refused"]     # ("reset" is avoided: the model reports it as `other`, reported separately)


# ---- log facts, computed here independently of cluster.py ----------------------------------------------------------

def log_offsets(spec, tp):
    return [o for (o, _, _) in kproto.flatten_entries(spec["logs"].get(tp, []))]


def earliest(spec, tp):
    if tp in spec.get("log_start", {}):
        return spec["log_start"][tp]
    offs = log_offsets(spec, tp)
    return offs[0] if offs else 0


def latest(spec, tp):
    offs = log_offsets(spec, tp)
    return offs[-1] + 1 if offs else spec.get("log_start", {}).get(tp, 0)


# ---- generator ------------------------------------------------------------------------------------------------------

def make_setup(rng, leaderless=0.0):
    nb = rng.randint(1, 3)
    names = [b"t1"] if rng.random() < 0.55 else [b"t1", b"t2"]
    topics, logs, log_start = {}, {}, {}
    for t in names:
        n = rng.randint(1, 3)
        topics[t] = [(-1 if rng.random() < leaderless else rng.randint(1, nb)) for _ in range(n)]
        for p in range(n):
            k = rng.random()
            if k < 0.12:
                logs[(t, p)] = []
                if rng.random() < 0.5:
                    log_start[(t, p)] = rng.randint(1, 6)
            else:
                lg = []
                while not lg:
                    lg = known_safe_log(rng)
                logs[(t, p)] = lg
    for t in names:
        if all(l < 0 for l in topics[t]):
            topics[t][0] = rng.randint(1, nb)     # a topic without any leader cannot be subscribed at all
    spec = {"brokers": brokers(nb), "topics": topics, "logs": logs, "log_start": log_start}
    common.maybe_order(rng, spec)
    tps = [(t, p) for t in names for p in range(len(topics[t]))]
    committed = {}
    for tp in tps:
        if rng.random() < 0.45:
            e, l = earliest(spec, tp), latest(spec, tp)
            committed[tp] = rng.choice([e, l, rng.randint(e, l), rng.randint(e, l), max(0, e - 1), l + 1, l + 3])
    spec["committed"] = {G: committed, b"other": {tp: latest(spec, tp) for tp in tps}}
    spec["coordinator"] = {G: rng.randint(1, nb)}
    storage = rng.randint(0, 1)
    fallback = rng.choice(["earliest", "latest"])
    # assignment: whole topics, or explicit lists (then only the listed partitions are consumed)
    assigned, calls = [], [T("with_group", [G]), T("with_offset_storage", [storage])]
    for t in names:
        n = len(topics[t])
        if rng.random() < 0.75:
            calls.append(T("with_topic", [t]))
            assigned += [(t, p) for p in range(n)]
        else:
            ps = sorted(rng.sample(range(n), rng.randint(1, n)))
            calls.append(T("with_topic_partitions", [t, ps]))
            assigned += [(t, p) for p in ps]
    calls.append(T("with_fallback_offset", [T(fallback)]))
    small = False
    if rng.random() < 0.25:
        biggest = max([len(kproto.encode_entries([e])) for lg in logs.values() for e in lg] + [1])
        calls.append(T("with_fetch_max_bytes_per_partition", [biggest + rng.randint(0, 40)]))
        small = True
    rng.shuffle(calls)
    return {"spec": spec, "calls": calls, "assigned": assigned, "storage": storage, "fallback": fallback, "small": small,
            "client_storage_differs": rng.random() < 0.35,
            # the client's retry setting at its extreme: 0 ("do not retry") still means one attempt
            "retries_off": rng.random() < 0.25}


def rand_history(rng, su, n, faults=True):
    """list of abstract ops; commits carry their failure mode"""
    spec, assigned = su["spec"], su["assigned"]
    h = []
    for _ in range(n):
        x = rng.random()
        if x < 0.13:
            h.append(("poll",))
        elif x < 0.50:
            tp = rng.choice(assigned)
            offs = log_offsets(spec, tp)
            if offs and rng.random() < 0.95:
                o = rng.choice(offs) if rng.random() < 0.5 else offs[int(len(offs) * rng.random() ** 0.4)]   # biased upwards
            else:
                o = latest(spec, tp) + rng.randint(0, 4)
            h.append(("mark", tp, o))
        elif x < 0.64:
            h.append(("markset", rng.randint(0, len(assigned))))
        elif x < 0.90:
            y = rng.random()
            if not faults or y < 0.6:
                h.append(("commit", None))
            elif y < 0.8:
                tp = rng.choice(assigned)
                h.append(("commit", ("code", tp, rng.choice(FATAL + RETRY))))
            elif len(assigned) == 1:
                # (with several dirty partitions the model cannot learn the HashMap order of a request that never arrived)
                h.append(("commit", ("write", rng.choice(IOKINDS))))
            else:
                h.append(("commit", None))
        else:
            h.append(("probe", rng.choice(assigned)))
    return h


def lifetime_start(su, source, hosts):
    ops = []
    if source == "hosts":
        ops.append(T("consumer_build", [T("from_hosts", [hosts]), su["calls"]]))
        ops.append(T("set_retry_max_attempts", [1]))       # a client made by the builder sleeps 100 ms per retry
    else:
        st = [c.args[0] for c in su["calls"] if c.name == "with_offset_storage"]
        if st and su.get("client_storage_differs"):
            # the client handed to the builder was configured with the OTHER storage: the builder's explicit choice is in force
            ops.append(T("set_group_offset_storage", [1 - st[-1]]))
        if su.get("retries_off"):
            ops.append(T("set_retry_max_attempts", [0]))
        ops.append(T("consumer_build", [T("from_client"), su["calls"]]))
    for tp in su["assigned"]:
        ops.append(T("consumer_op", [T("last_consumed_message", [tp[0], tp[1]])]))
    ops.append(T("poll"))
    return ops


def concrete(h, polled):
    """abstract history -> ops; `polled`: a poll succeeded in this lifetime (consume_messageset needs one)"""
    ops = []
    clear = False
    for a in h:
        if a[0] == "poll":
            op = T("poll")
        elif a[0] == "mark":
            op = T("consumer_op", [T("consume_message", [a[1][0], a[1][1], a[2]])])
        elif a[0] == "markset":
            op = T("consume_messageset", [a[1]])
        elif a[0] == "probe":
            op = T("consumer_op", [T("last_consumed_message", [a[1][0], a[1][1]])])
        elif a[0] == "commit":
            op = T("consumer_op", [T("commit_consumed")])
            f = a[1]
            if f is not None and f[0] == "code":
                op = {"op": op, "inject": [("offset_commit", f[1][0], f[1][1], f[2], 1)]}
            elif f is not None and f[0] == "write":
                op = {"op": op, "plan": {"write": {0: ["fail", f[1]]}}}
            elif f is not None and f[0] == "lostreply":
                op = {"op": op, "plan": {"read": {1: ["fail", f[1]]}}}
        if clear:
            # drop the fault plan of the previous op (it stays installed otherwise)
            op = dict(op, plan=op.get("plan")) if isinstance(op, dict) else {"op": op, "plan": None}
            clear = False
        if isinstance(op, dict) and op.get("plan"):
            clear = True
        ops.append(op)
    return ops, clear


def crash_ops(rng, how, pending_clear):
    if how == "drop":
        first = T("drop")
    else:
        first = T("into_client")
    if pending_clear:
        first = {"op": first, "plan": None}
    return [first]


def build_case(rng, su, segments, crashes, script, kind):
    """segments: abstract histories, one per consumer lifetime; crashes[i]: how lifetime i ends ('drop'|'keep')"""
    spec = dict(su["spec"])
    if any(a[0] == "commit" and a[1] is not None and a[1][0] == "write" for h in segments for a in h):
        # after code 16 the coordinator is forgotten; a lookup whose write fails reaches no broker, and the model cannot
        # learn from the wire which connection the client picked for it
        script = [c for c in script if c != 16]
        segments = [[("commit", ("code", a[1][1], 14)) if a[0] == "commit" and a[1] is not None and a[1][0] == "code" and a[1][2] == 16
                     else a for a in h] for h in segments]
    if script:
        spec["commit_script"] = list(script)
    hosts = [h + b":" + str(p).encode() for _, (h, p) in sorted(spec["brokers"].items())]
    first_source = "client" if rng.random() < 0.7 else "hosts"
    ops = boot_ops(spec) if first_source == "client" else []
    source = first_source
    for i, h in enumerate(segments):
        ops += lifetime_start(su, source, hosts if rng.random() < 0.5 else hosts[:1])
        cops, clear = concrete(h, True)
        ops += cops
        if i < len(segments) - 1:
            how = crashes[i]
            ops += crash_ops(rng, how, clear)
            source = "hosts" if how == "drop" else "client"
    meta = {"assigned": list(su["assigned"]), "storage": su["storage"], "fallback": su["fallback"], "small": su["small"],
            "kind": kind, "lifetimes": len(segments)}
    return {"cluster": spec, "ops": ops, "meta": meta}


def rand_script(rng):
    if rng.random() < 0.5:
        return []
    return [rng.choice([0, 0, 0] + RETRY + RETRY + FATAL) for _ in range(rng.randint(1, 8))]


def gen(rng, tier):
    cases = []
    # 1. short histories, crash after every prefix
    nshort = 60 if tier == "quick" else 1500
    for i in range(nshort):
        su = make_setup(rng, leaderless=0.05 if i % 5 == 0 else 0.0)
        h = rand_history(rng, su, rng.randint(1, 4))
        if not any(a[0] == "commit" for a in h):
            h[rng.randrange(len(h))] = ("commit", None)
        if not any(a[0] in ("mark", "markset") for a in h):
            tp = rng.choice(su["assigned"])
            offs = log_offsets(su["spec"], tp) or [3]
            h.insert(0, ("mark", tp, rng.choice(offs)))
        script = rand_script(rng) if i % 3 == 0 else []
        how = rng.choice(["drop", "drop", "keep"])
        for k in range(len(h) + 1):
            cases.append(build_case(rng, su, [h[:k], []], [how], script, "prefix"))
    # 2. long histories with 1-2 crash points, continuing afterwards
    for i in range(260 if tier == "quick" else 12000):
        su = make_setup(rng, leaderless=0.08 if i % 4 == 0 else 0.0)
        n = rng.randint(3, 15)
        h = rand_history(rng, su, n)
        cuts = sorted(rng.sample(range(0, n + 1), rng.randint(1, 2)))
        segs, prev = [], 0
        for c in cuts:
            segs.append(h[prev:c])
            prev = c
        segs.append(h[prev:])
        if rng.random() < 0.5:
            segs.append([])        # crash at the very end as well
        crashes = [rng.choice(["drop", "drop", "keep"]) for _ in segs]
        cases.append(build_case(rng, su, segs, crashes, rand_script(rng), "long"))
    # 3. lost commit reply: the coordinator stored the offsets, the client saw a failure; one more commit, then a true crash
    for i in range(60 if tier == "quick" else 1500):
        su = make_setup(rng)
        n = rng.randint(1, 8)
        h = rand_history(rng, su, n, faults=False)
        tp = rng.choice(su["assigned"])
        offs = log_offsets(su["spec"], tp) or [2]
        h.append(("mark", tp, rng.choice(offs)))
        h.append(("commit", ("lostreply", rng.choice(IOKINDS))))
        if i % 2:
            h.append(("commit", None))
        after = rand_history(rng, su, rng.randint(0, 4), faults=False)
        cases.append(build_case(rng, su, [h, after, []], ["drop", rng.choice(["drop", "keep"])], [], "lostreply"))
    # 4. the commit request cannot be written (nothing reaches the coordinator); the next commit must carry the marks again.
    #    A successful commit and a single mark precede it, so that at most one partition is listed
    for i in range(50 if tier == "quick" else 1500):
        su = make_setup(rng)
        h = rand_history(rng, su, rng.randint(0, 6), faults=False)
        h.append(("commit", None))
        rounds = rng.randint(1, 2)
        for k in range(rounds):
            tp = rng.choice(su["assigned"])
            offs = log_offsets(su["spec"], tp) or [2]
            h.append(("mark", tp, rng.choice(offs[len(offs) // 2:])))
            h.append(("commit", ("write", rng.choice(IOKINDS))))
            if rng.random() < 0.5:
                h.append(("probe", tp))
            if k < rounds - 1 or rng.random() < 0.7:
                h.append(("commit", None))
        cut = rng.randint(0, len(h))
        cases.append(build_case(rng, su, [h[:cut], h[cut:], []], [rng.choice(["drop", "keep"]), "drop"], [], "writefault"))
    return cases


# ---- oracle ---------------------------------------------------------------------------------------------------------

def _op(item):
    return item["op"] if isinstance(item, dict) else item


def _requests(rec):
    """[(host, parsed request, reply bytes | None)] of one op"""
    out = []
    reps = list(rec["replies"])
    for i, (h, payload) in enumerate(rec["requests"]):
        try:
            rq = kproto.parse_request(payload)
        except kproto.ProtoError:
            continue
        out.append((h, rq, reps[i] if i < len(reps) else None))
    return out


def oracle(case, recs, cl):
    m = case["meta"]
    spec = case["cluster"]
    assigned = [tuple(tp) for tp in m["assigned"]]
    storage, fallback = m["storage"], m["fallback"]
    coord_node = spec["coordinator"][G]
    ch, cp = spec["brokers"][coord_node]
    coord_host = ch + b":" + str(cp).encode()
    fails = []
    store = dict(spec.get("committed", {}).get(G, {}))
    marks, dirty = {}, set()
    alive = False
    first_poll = False
    last_poll = None
    snapshot = {}
    faulted = False

    def F(msg):
        fails.append("C08: " + msg)

    for i, rec in enumerate(recs):
        item = case["ops"][i]
        op = _op(item)
        res = rec["impl"]
        if res.name in ("panic", "hang", "abort", "harness_error"):
            F("op %d %s crashed: %s" % (i, op.name, dumps(res)[:120]))
            break
        if isinstance(item, dict) and item.get("plan"):
            faulted = True
        rqs = _requests(rec)
        # the coordinator's store follows every answered commit request, whatever the client made of the answer
        commits = []
        for (h, rq, rep) in rqs:
            if rq["api"] == "offset_fetch":
                if rq["api_version"] != storage:
                    F("group offsets fetched with API version %d, storage %s needs %d" % (rq["api_version"], "Zookeeper" if storage == 0 else "Kafka", storage))
                if rq["body"]["group"] != G:
                    F("group offsets fetched for group %r" % rq["body"]["group"])
                if h != coord_host:
                    F("group offsets fetched from %r, the coordinator is %r" % (h, coord_host))
            if rq["api"] != "offset_commit":
                continue
            listed, dup = {}, False
            for t in rq["body"]["topics"] or []:
                for p in t["partitions"] or []:
                    if (t["topic"], p["partition"]) in listed:
                        dup = True
                    listed[(t["topic"], p["partition"])] = p["offset"]
            allzero = None
            if rep is not None:
                try:
                    _, body = kproto.parse_response("offset_commit", rq["api_version"], rep)
                    allzero = True
                    for t in body["topics"] or []:
                        for p in t["partitions"] or []:
                            if p["error"] == 0:
                                store[(t["topic"], p["partition"])] = listed.get((t["topic"], p["partition"]))
                            else:
                                allzero = False
                except Exception:
                    allzero = None
            commits.append((h, rq, listed, dup, allzero))
        name = op.name
        sub = op.args[0] if name == "consumer_op" else None
        if commits and not (name == "consumer_op" and sub.name == "commit_consumed"):
            F("op %d %s sent an offset commit" % (i, name))
        if name == "consumer_build":
            if res.name != "ok":
                F("re-creating the consumer failed: %s" % dumps(res)[:80])
                break
            alive, first_poll, last_poll = True, True, None
            snapshot = dict(store)
            marks = {tp: snapshot[tp] - 1 for tp in assigned if snapshot.get(tp) is not None}
            dirty = set()
        elif name in ("drop", "into_client"):
            alive = False
        elif name == "poll":
            last_poll = res if res.name == "ok" else None
            if first_poll:
                first_poll = False
                seen = {}
                for (h, rq, rep) in rqs:
                    if rq["api"] == "fetch":
                        for t in rq["body"]["topics"] or []:
                            for p in t["partitions"] or []:
                                seen[(t["topic"], p["partition"])] = p["offset"]
                delivered = {}
                if res.name == "ok":
                    for s in res.args[0].args[1]:
                        if s.args[2]:
                            delivered.setdefault((s.args[0], s.args[1]), s.args[2][0].args[0])
                for tp in assigned:
                    if spec["topics"][tp[0]][tp[1]] < 0:
                        continue
                    e, l = earliest(spec, tp), latest(spec, tp)
                    s = snapshot.get(tp)
                    want = s if (s is not None and e <= s <= l) else (e if fallback == "earliest" else l)
                    if tp not in seen:
                        F("consumer created at op <%d does not fetch %r:%d in its first poll" % (i, tp[0], tp[1]))
                    elif seen[tp] != want:
                        F("restart: first fetch of %r:%d at offset %d, expected %d (stored by the coordinator: %s, earliest=%d latest=%d fallback=%s)"
                          % (tp[0], tp[1], seen[tp], want, s, e, l, fallback))
                    elif res.name == "ok":
                        nxt = [o for o in log_offsets(spec, tp) if o >= want]
                        if nxt and tp in delivered and delivered[tp] > nxt[0]:
                            F("restart: %r:%d resumes delivery at offset %d, offset %d was skipped" % (tp[0], tp[1], delivered[tp], nxt[0]))
                        if nxt and tp not in delivered and not m["small"]:
                            F("restart: %r:%d delivers nothing although offset %d is retained and not covered by a stored commit" % (tp[0], tp[1], nxt[0]))
        elif name == "consume_messageset":
            if res.name != "ok":
                F("consume_messageset failed: %s" % dumps(res)[:80])
            elif last_poll is not None:
                sets = last_poll.args[0].args[1]
                k = op.args[0]
                if k < len(sets) and sets[k].args[2]:
                    tp = (sets[k].args[0], sets[k].args[1])
                    o = sets[k].args[2][-1].args[0]
                    if marks.get(tp) is None or o > marks[tp]:
                        marks[tp] = o
                        dirty.add(tp)
        elif name == "consumer_op" and sub.name == "consume_message":
            tp, o = (sub.args[0], sub.args[1]), sub.args[2]
            if res.name != "ok":
                F("consume_message on the consumed partition %r:%d failed: %s" % (tp[0], tp[1], dumps(res)[:80]))
            elif marks.get(tp) is None or o > marks[tp]:
                marks[tp] = o
                dirty.add(tp)
        elif name == "consumer_op" and sub.name == "last_consumed_message":
            tp = (sub.args[0], sub.args[1])
            want = T("ok", [T("some", [marks[tp]]) if marks.get(tp) is not None else T("none")])
            if res != want:
                F("last_consumed_message(%r:%d) = %s, expected %s (marks never move backwards; a stored offset o loads as o-1)"
                  % (tp[0], tp[1], dumps(res), dumps(want)))
        elif name == "consumer_op" and sub.name == "commit_consumed":
            want = {tp: marks[tp] + 1 for tp in dirty}
            for (h, rq, listed, dup, allzero) in commits:
                if rq["body"]["group"] != G:
                    F("commit for group %r" % rq["body"]["group"])
                if rq["api_version"] != storage:
                    F("commit sent with API version %d, storage %s needs %d" % (rq["api_version"], "Zookeeper" if storage == 0 else "Kafka", storage))
                if h != coord_host:
                    F("commit sent to %r, the group's coordinator is %r" % (h, coord_host))
                if dup:
                    F("commit lists a partition twice")
                if listed != want:
                    F("op %d: commit lists %s, the marks changed since the last successful commit are %s"
                      % (i, sorted(listed.items()), sorted(want.items())))
            if res.name == "ok":
                if want and not commits:
                    F("op %d: commit_consumed returned Ok without sending the changed marks %s" % (i, sorted(want.items())))
                if commits and not faulted and commits[-1][4] is False:
                    F("op %d: commit_consumed returned Ok although the coordinator answered an error" % i)
                dirty = set()
            elif res.name == "err":
                if not want:
                    F("op %d: commit_consumed with nothing to commit failed: %s" % (i, dumps(res)[:80]))
        if len(fails) >= 6:
            break
    # the store as rebuilt from the wire must be the cluster's
    if not fails and len(recs) == len(case["ops"]):
        real = {tp: o for tp, o in cl.committed.get(G, {}).items()}
        if real != {tp: o for tp, o in store.items()}:
            F("internal: store rebuilt from request/reply pairs %s differs from the cluster's %s" % (sorted(store.items()), sorted(real.items())))
    if len(recs) < len(case["ops"]) and not fails:
        F("case aborted early at op %d" % len(recs))
    return fails[:6]


def _commit_requests(recs):
    n = 0
    for r in recs:
        for h, payload in r["requests"]:
            try:
                rq = kproto.parse_request(payload)
            except kproto.ProtoError:
                continue
            if rq["api"] == "offset_commit" and any(t["partitions"] for t in rq["body"]["topics"] or []):
                n += 1
    return n


def nontrivial(case, recs):
    if len(recs) != len(case["ops"]):
        return False
    if _commit_requests(recs):
        return True
    return bool(case["cluster"].get("committed", {}).get(G))


def stats(case, recs):
    m = case["meta"]
    s = {"kind:" + m["kind"]: 1, "storage:%s" % ("zookeeper" if m["storage"] == 0 else "kafka"): 1, "fallback:" + m["fallback"]: 1,
         "lifetimes:%d" % m["lifetimes"]: 1, "assigned_partitions:%d" % len(m["assigned"]): 1,
         "commit_requests": _commit_requests(recs)}
    for i, r in enumerate(recs):
        item = case["ops"][i]
        op = _op(item)
        if op.name == "consumer_op":
            k = op.args[0].name
            if k == "commit_consumed":
                mode = "plain"
                if isinstance(item, dict):
                    mode = "inject" if item.get("inject") else "write-fault" if (item.get("plan") or {}).get("write") else \
                        "lost-reply" if (item.get("plan") or {}).get("read") else "plain"
                s["commit:%s:%s" % (mode, r["impl"].name)] = s.get("commit:%s:%s" % (mode, r["impl"].name), 0) + 1
            else:
                s["op:" + k] = s.get("op:" + k, 0) + 1
        elif op.name in ("poll", "consume_messageset", "drop", "into_client"):
            s["op:" + op.name] = s.get("op:" + op.name, 0) + 1
    return s
