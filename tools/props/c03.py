"""C03: produced message sets are valid Kafka v0 wire data for every payload and codec."""
import zlib

import kproto
from val import T, dumps, some
from props import common
from props.common import boot_ops, brokers, rand_bytes, rand_topic

SLICE = "ProduceRequest / MessageProduceRequest encoding (KafkaClient::produce_messages, Producer::send_all), gzip and raw-snappy wrappers"
RULE = ("random batches of 1-14 records (thorough: up to 30) over 1-4 topics x 1-4 partitions on 1-3 brokers, partitions repeated within a "
        "batch, 1-2 batches per case; keys and values drawn from {null, empty, 1 byte, 2-40 bytes binary, 'ab' strings, all 256 byte values, "
        "runs of zero bytes, 41-400 bytes}; size classes per case: small (70%), one or two 1-4 KiB payloads incl. 4095/4096/4097 (19%), one "
        "6-8 KiB payload (6%), one 12-20 KiB payload (4%), and 1% cases in which the plain set of one partition exceeds 64 KiB (3 x 19-20 KiB "
        "+ 9 KiB: several snappy blocks); big payloads binary or compressible, as key or as value. Every class is spread evenly over "
        "compression {NONE, GZIP, SNAPPY} x {KafkaClient::produce_messages after set_compression, Producer built with with_compression + "
        "send_all, where an empty slice means absent}; acks in {1,-1,0}. The produce requests received by the reference brokers are parsed "
        "with the independent codec (kproto, strict) and zlib; non-trivial = every batch of the case reached a broker as a produce request "
        "with a non-empty message set and the case mixes at least two of {null, empty, non-empty} keys/values or holds a payload >= 1 KiB")
ASSUMPTIONS = ["tools/kproto.py (message-set parser, gzip via zlib, pure-python snappy block decoder) is an independent, conforming "
               "implementation of the Kafka v0 message format",
               "zlib.crc32 is CRC-32/ISO-HDLC"]
EXHAUSTIVE = False

CODEC_NAME = {0: "none", 1: "gzip", 2: "snappy"}
XERIAL = b"\x82SNAPPY\x00"


# ---- generator ---------------------------------------------------------------------------------------

def rand_payload(rng):
    """-> bytes or None (None = absent); at most 400 bytes"""
    k = rng.random()
    if k < 0.18:
        return None
    if k < 0.30:
        return b""
    if k < 0.40:
        return bytes([rng.getrandbits(8)])
    if k < 0.72:
        return rand_bytes(rng, 2, 40)
    if k < 0.80:
        return rand_bytes(rng, 1, 12, b"ab")
    if k < 0.84:
        return bytes(range(256))
    if k < 0.90:
        return b"\x00" * rng.randint(1, 70)
    return rand_bytes(rng, 41, 400)


def big_payload(rng, n, binary=None):
    if binary or (binary is None and rng.random() < 0.5):
        return bytes(rng.getrandbits(8) for _ in range(n))
    unit = rand_bytes(rng, 1, 9)
    return (unit * (n // len(unit) + 1))[:n]


# payload size classes of a case (bytes of the one or two big payloads it holds); "huge" = one partition set over 64 KiB
SIZE_CLASSES = {"small": [], "kib": [1024, 1500, 2048, 4095, 4096, 4097], "8k": [8192, 6000, 8191], "20k": [20480, 20000, 16384, 12000],
                "huge": [], "many": []}


def make_case(rng, tier, mode=None, codec=None, size="small"):
    nb = rng.randint(1, 3)
    names = set()
    want = rng.randint(1, 4)
    while len(names) < want:
        names.add(rand_topic(rng))
    names = sorted(names)
    topics = {t: [rng.randint(1, nb) for _ in range(rng.randint(1, 4))] for t in names}
    spec = {"brokers": brokers(nb), "topics": topics, "logs": {}}
    common.maybe_order(rng, spec)
    mode = mode or rng.choice(["client", "producer"])
    codec = rng.choice([0, 1, 2]) if codec is None else codec
    acks = rng.choice([1, 1, 1, 1, -1, 0])
    ops = boot_ops(spec)
    if mode == "client":
        ops.append(T("set_compression", [codec]))
    else:
        calls = [T("with_compression", [codec]), T("with_required_acks", [acks])]
        if rng.random() < 0.4:
            calls.append(T("with_partitioner"))       # re-installs the default partitioner: the codec chosen before it must survive
        rng.shuffle(calls)
        if rng.random() < 0.3:
            # the client handed to the builder has another codec of its own: the builder's choice is the one in force
            ops.append(T("set_compression", [rng.choice([c for c in (0, 1, 2) if c != codec])]))
        ops.append(T("producer_build", [T("from_client"), calls]))
    nboot = len(ops)
    batches = []
    maxrec = 14 if tier == "quick" else 30
    nbatches = rng.choice([1, 1, 2]) if size in ("small", "kib") else 1
    for _ in range(nbatches):
        recs = []
        shape = rng.random()
        n = rng.randint(1, 3) if shape < 0.3 else rng.randint(1, maxrec)
        if size in ("20k", "huge"):
            n = rng.randint(1, 4)
        if size == "many":
            # long batches (a sort or a hash-based regrouping of the batch shows only beyond a few dozen records)
            n = rng.randint(33, 96) if tier == "quick" else rng.randint(33, 400)
        hot = (rng.choice(names), 0)
        for _ in range(n):
            if shape > 0.8 and rng.random() < 0.7:
                t, p = hot
            else:
                t = rng.choice(names)
                p = rng.randrange(len(topics[t]))
            recs.append((t, p, rand_payload(rng), rand_payload(rng)))
        if size == "many":
            # destinations dealt round-robin (or at random) over 2..6 partitions, distinct short values
            dests = sorted(set((t, p) for t in names for p in range(len(topics[t]))))
            rng.shuffle(dests)
            dests = dests[:rng.randint(2, 6)] if len(dests) >= 2 else dests
            rr = rng.random() < 0.6
            recs = []
            for i in range(n):
                t, p = dests[i % len(dests)] if rr else rng.choice(dests)
                recs.append((t, p, (b"k%d" % i) if rng.random() < 0.5 else None, b"value-%03d" % i))
        if SIZE_CLASSES[size]:
            for _ in range(rng.choice([1, 2]) if size == "kib" else 1):
                i = rng.randrange(len(recs))
                t, p, k, v = recs[i]
                big = big_payload(rng, rng.choice(SIZE_CLASSES[size]))
                recs[i] = (t, p, big, v) if rng.random() < 0.35 else (t, p, k, big)
        if size == "huge":
            # one partition whose plain message set exceeds 64 KiB (several snappy blocks)
            t, p = hot
            # (two thirds of these sets are wholly incompressible: the compressor then has more than 64 KiB of OUTPUT to hand over too)
            binary = True if rng.random() < 0.67 else None
            recs = [(t, p, rand_payload(rng), big_payload(rng, rng.randint(19200, 20480), binary)) for _ in range(3)] + \
                   [(t, p, None, big_payload(rng, 9000, binary))] + recs[:2]
            rng.shuffle(recs)
        if mode == "client":
            ops.append(T("produce_messages", [acks, rng.choice([0, 1, 30]), rng.choice([0, 500000000]),
                                               [T("pm", [t, p, some(k), some(v)]) for (t, p, k, v) in recs]]))
            batches.append([(t, p, k, v) for (t, p, k, v) in recs])
        else:
            ops.append(T("send_all", [[T("r", [t, p, k or b"", v or b""]) for (t, p, k, v) in recs]]))
            # Producer API: an empty slice means "absent"
            batches.append([(t, p, k or None, v or None) for (t, p, k, v) in recs])
    return {"cluster": spec, "ops": ops,
            "meta": {"mode": mode, "codec": codec, "acks": acks, "nboot": nboot, "batches": batches, "size": size}}


def gen(rng, tier):
    quick = tier == "quick"
    plan = [("small", 700 if quick else 17500), ("kib", 200 if quick else 5000), ("8k", 60 if quick else 1500),
            ("20k", 40 if quick else 1000), ("huge", 12 if quick else 300),
            ("many", 48 if quick else 1200)]
    cases = []
    # the expensive classes first and adjacent, so that the checker's round-robin sharding spreads them over the workers
    for size, n in reversed(plan):
        i = 0
        while i < n:
            for mode in ("client", "producer"):
                for codec in (2, 1, 0):
                    if i < n:
                        c = make_case(rng, tier, mode, codec, size)
                        if i % 6 == 5 and "plan" not in c:
                            # a stream that takes only part of what it is offered (TLS records, a socket with a write time-out):
                            # the request must arrive whole all the same
                            c["plan"] = {"write_chunk": rng.choice([7, 1000, 4096, 16384] if size in ("small", "kib") else [4096, 16384])}
                            c["meta"]["write_chunk"] = c["plan"]["write_chunk"]
                        cases.append(c)
                        i += 1
    return cases


# ---- oracle ------------------------------------------------------------------------------------------

def _short(b):
    return "null" if b is None else ("%d bytes %s" % (len(b), bytes(b[:8]).hex()))


def check_plain_set(data, expected, where, fails):
    """data must parse strictly into exactly the records `expected` [(key|None, value|None)]: exact sizes, magic 0, attributes 0,
    offsets 0, CRC-32 of magic..value, keys and values byte-identical and in order"""
    try:
        msgs = kproto.parse_message_set(data, strict=True)
    except kproto.ProtoError as ex:
        fails.append("C03: %s: message set rejected by the independent parser: %s" % (where, ex))
        return
    if len(msgs) != len(expected):
        fails.append("C03: %s: %d messages on the wire for %d records" % (where, len(msgs), len(expected)))
        return
    pos = 0
    for i, (m, (k, v)) in enumerate(zip(msgs, expected)):
        raw = m["raw"]
        if data[pos:pos + len(raw)] != raw or m["size"] != len(raw) - 12:
            fails.append("C03: %s: message %d: size field %d does not delimit the message" % (where, i, m["size"]))
        pos += len(raw)
        if m["magic"] != 0:
            fails.append("C03: %s: message %d: magic %d" % (where, i, m["magic"]))
        if m["attr"] != 0:
            fails.append("C03: %s: message %d: attributes %d in a plain message" % (where, i, m["attr"]))
        if m["offset"] != 0:
            fails.append("C03: %s: message %d: offset %d, expected 0" % (where, i, m["offset"]))
        if not m["crc_ok"] or (zlib.crc32(raw[16:]) & 0xFFFFFFFF) != m["crc"]:
            fails.append("C03: %s: message %d: CRC field %08x, CRC-32 of magic..value is %08x" %
                         (where, i, m["crc"], zlib.crc32(raw[16:]) & 0xFFFFFFFF))
        if m["key"] != k:
            fails.append("C03: %s: message %d: key %s, record has %s" % (where, i, _short(m["key"]), _short(k)))
        if m["value"] != v:
            fails.append("C03: %s: message %d: value %s, record has %s" % (where, i, _short(m["value"]), _short(v)))
    if pos != len(data):
        fails.append("C03: %s: %d stray bytes after the last message" % (where, len(data) - pos))


def check_partition_data(data, expected, codec, where, fails):
    if codec == 0:
        check_plain_set(data, expected, where, fails)
        return
    try:
        msgs = kproto.parse_message_set(data, strict=True)
    except kproto.ProtoError as ex:
        fails.append("C03: %s: message set rejected by the independent parser: %s" % (where, ex))
        return
    if len(msgs) != 1:
        fails.append("C03: %s: %d top-level messages with %s, expected one wrapper" % (where, len(msgs), CODEC_NAME[codec]))
        return
    w = msgs[0]
    if w["size"] != len(data) - 12:
        fails.append("C03: %s: wrapper size field %d, message set has %d bytes" % (where, w["size"], len(data)))
    if w["magic"] != 0:
        fails.append("C03: %s: wrapper magic %d" % (where, w["magic"]))
    if w["attr"] != codec:
        fails.append("C03: %s: wrapper attributes %d, codec id is %d" % (where, w["attr"], codec))
    if w["key"] is not None:
        fails.append("C03: %s: wrapper key is %s, expected null" % (where, _short(w["key"])))
    if w["offset"] != 0:
        fails.append("C03: %s: wrapper offset %d, expected 0" % (where, w["offset"]))
    if not w["crc_ok"] or (zlib.crc32(w["raw"][16:]) & 0xFFFFFFFF) != w["crc"]:
        fails.append("C03: %s: wrapper CRC field %08x, CRC-32 of magic..value is %08x" %
                     (where, w["crc"], zlib.crc32(w["raw"][16:]) & 0xFFFFFFFF))
    if w["value"] is None:
        fails.append("C03: %s: wrapper value is null" % where)
        return
    try:
        if codec == 1:
            inner = kproto.gzip_decompress(w["value"])
            if zlib.decompress(w["value"], 31) != inner:
                fails.append("C03: %s: gzip decoders differ" % where)
        else:
            inner = kproto.snappy_xerial_decompress(w["value"])
    except (kproto.ProtoError, zlib.error) as ex:
        fails.append("C03: %s: %s wrapper value rejected by the independent decompressor: %s" % (where, CODEC_NAME[codec], ex))
        return
    check_plain_set(inner, expected, where + " (inside the %s wrapper)" % CODEC_NAME[codec], fails)


def observed(rec):
    """[(host, request)] produce requests of one op; unparsable frames are returned as (host, None)"""
    out = []
    for h, payload in rec["requests"]:
        try:
            rq = kproto.parse_request(payload)
        except kproto.ProtoError as ex:
            out.append((h, None, str(ex)))
            continue
        out.append((h, rq, None))
    return out


def oracle(case, recs, cl):
    m = case["meta"]
    spec = case["cluster"]
    fails = []
    if len(recs) < len(case["ops"]):
        return ["C03: case aborted early: %s" % dumps(recs[-1]["impl"])[:120]]
    hostname = {n: h + b":" + str(p).encode() for n, (h, p) in spec["brokers"].items()}
    stored = {}
    for bi, batch in enumerate(m["batches"]):
        rec = recs[m["nboot"] + bi]
        res = rec["impl"]
        if res.name != "ok":
            fails.append("C03: batch %d: call failed: %s" % (bi, dumps(res)[:100]))
        expected = {}
        for (t, p, k, v) in batch:
            expected.setdefault((t, p), []).append((k, v))
            stored.setdefault((t, p), []).append((k, v))
        seen = {}
        for h, rq, err in observed(rec):
            if rq is None:
                fails.append("C03: batch %d: request to %r rejected by the independent parser: %s" % (bi, h, err))
                continue
            if rq["api"] != "produce":
                fails.append("C03: batch %d: unexpected %s request" % (bi, rq["api"]))
                continue
            if rq["body"]["acks"] != m["acks"]:
                fails.append("C03: batch %d: acks %d on the wire, %d requested" % (bi, rq["body"]["acks"], m["acks"]))
            for t in rq["body"]["topics"] or []:
                for p in t["partitions"] or []:
                    key = (t["topic"], p["partition"])
                    where = "batch %d %s %r:%d" % (bi, CODEC_NAME[m["codec"]], key[0], key[1])
                    if key in seen:
                        fails.append("C03: %s: partition data sent twice" % where)
                        continue
                    seen[key] = True
                    if key not in expected:
                        fails.append("C03: %s: data for a partition no record names" % where)
                        continue
                    leader = spec["topics"][key[0]][key[1]]
                    if h != hostname[leader]:
                        fails.append("C03: %s: sent to %r, leader is %r" % (where, h, hostname[leader]))
                    if p["message_set"] is None:
                        fails.append("C03: %s: null message set" % where)
                        continue
                    check_partition_data(p["message_set"], expected[key], m["codec"], where, fails)
        for key in expected:
            if key not in seen:
                fails.append("C03: batch %d: no data sent for %r:%d (%d records)" % (bi, key[0], key[1], len(expected[key])))
    # end to end: what the reference brokers stored (they decode with kproto as well)
    for key, kvs in stored.items():
        got = [(k, v) for (_, k, v) in cl.flat(*key)]
        if got != kvs:
            fails.append("C03: broker log of %r:%d holds %d records, %d were produced (or contents differ)" % (key[0], key[1], len(got), len(kvs)))
    return fails[:8]


def _kinds(case):
    s = set()
    big = False
    for b in case["meta"]["batches"]:
        for (_, _, k, v) in b:
            for x in (k, v):
                s.add("null" if x is None else "empty" if x == b"" else "data")
                big = big or (x is not None and len(x) >= 1024)
    return s, big


def nontrivial(case, recs):
    m = case["meta"]
    if len(recs) < len(case["ops"]):
        return False
    for bi in range(len(m["batches"])):
        ok = False
        for h, rq, err in observed(recs[m["nboot"] + bi]):
            if rq and rq["api"] == "produce" and any(p["message_set"] for t in rq["body"]["topics"] or [] for p in t["partitions"] or []):
                ok = True
        if not ok:
            return False
    s, big = _kinds(case)
    return len(s) >= 2 or big


def stats(case, recs):
    m = case["meta"]
    s = {"mode:" + m["mode"]: 1, "codec:" + CODEC_NAME[m["codec"]]: 1, "acks:%d" % m["acks"]: 1,
         "brokers:%d" % len(case["cluster"]["brokers"]): 1, "topics:%d" % len(case["cluster"]["topics"]): 1,
         "size_class:" + m["size"]: 1}

    def bump(k, n=1):
        s[k] = s.get(k, 0) + n
    for b in m["batches"]:
        bump("batches")
        parts = {}
        for (t, p, k, v) in b:
            parts[(t, p)] = parts.get((t, p), 0) + 1
            bump("records")
            for nm, x in (("key", k), ("value", v)):
                bump("%s:%s" % (nm, "null" if x is None else "empty" if x == b"" else "1-40B" if len(x) <= 40 else
                                "41-1023B" if len(x) < 1024 else "1-20KiB" if len(x) <= 20480 else ">20KiB"))
        bump("partitions_per_batch:%s" % ("1" if len(parts) == 1 else "2-4" if len(parts) <= 4 else "5+"))
        if any(n > 1 for n in parts.values()):
            bump("batches_with_repeated_partition")
        tot = {}
        for (t, p, k, v) in b:
            tot[(t, p)] = tot.get((t, p), 0) + len(k or b"") + len(v or b"") + 26
        if any(n > 65536 for n in tot.values()):
            bump("partition_sets_over_64KiB")
    return s
