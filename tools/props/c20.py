"""C20: only explicit metadata loads ever name a topic (or a partition of a known topic) the client has not loaded."""
import kproto
from val import T, dumps
from props import common
from props.common import brokers, fp, pm
from props.c06 import replay_merge
from props.c12 import xxh32

SLICE = "KafkaClient request builders (fetch / offsets / produce / commit / group-offset fetch) over ClientState membership; Producer::send_all; consumer Builder::create"
RULE = ("static clusters (1-3 brokers, 2-4 topics x 1-5 partitions, ~15% leaderless); metadata histories: load all | load a subset (incl. names that do not "
        "exist) | load all + reset | load all + reset + load subset | two subset loads | load all then a reload of one topic answered with FEWER partitions | "
        "no load at all | Producer / Consumer built from a host list (own client), optionally followed by a second phase (reset / subset reload) after the first probes; then 5-9 calls drawn from every public operation "
        "(fetch_messages, fetch_offsets, list_offsets, fetch_topic_offsets, produce_messages, commit_offsets, fetch_group_offsets, fetch_group_topic_offset "
        "with Kafka or Zookeeper offset storage, Producer send_all, Consumer creation + poll) whose arguments mix known topics with unknown ones (fresh names, "
        "prefixes / extensions / case variants of known names) and partition ids in range, == count, count+1, 99, 2^31-1, -1, -2, -2^31, with and without leader; "
        "the regression inputs `commit_offsets g [(known, 99, 5)]` / `fetch_group_offsets g [(known, count)]` and their in-range twins (partition count-1) are in every case with a known topic; "
        "non-trivial = a case in which a call carrying an unknown entry was made and a request naming a known topic was observed")
ASSUMPTIONS = ["'currently loaded metadata' is the merge defined by C06 (props/c06.py replay_merge), computed from the responses of the case's own history",
               "a produce/send naming a partition that is known but has no leader is expected to fail like an unknown one (statement of C05)"]
EXHAUSTIVE = False

I32MAX, I32MIN = 2 ** 31 - 1, -2 ** 31
G = b"grp"


def cluster_spec(rng):
    nb = rng.randint(1, 3)
    names = [b"ta", b"tb", b"tcc", b"d"][:rng.randint(2, 4)]
    topics = {}
    for t in names:
        topics[t] = [(-1 if rng.random() < 0.15 else rng.randint(1, nb)) for _ in range(rng.choice([1, 1, 2, 3, 5]))]
    logs = {}
    for t, ls in topics.items():
        for p in range(len(ls)):
            if rng.random() < 0.5:
                logs[(t, p)] = [("plain", o, None, b"m%d" % o) for o in range(rng.randint(1, 3))]
    return common.maybe_order(rng, {"brokers": brokers(nb), "topics": topics, "logs": logs})


def hosts_of(spec):
    return [h + b":" + str(p).encode() for _, (h, p) in sorted(spec["brokers"].items())]


def unknown_name(rng, known):
    k = rng.random()
    base = rng.choice(sorted(known)) if known else b"ta"
    if k < 0.3:
        return rng.choice([b"nope", b"zz", b"t"])
    if k < 0.5:
        return base + rng.choice([b"x", b"a", b"0"])
    if k < 0.65 and len(base) > 1:
        return base[:-1]
    if k < 0.8:
        return base.upper() if base.upper() != base else b"NOPE"
    return rng.choice([b"ghost", b"tb2", b"__consumer_offsets"])


def shrink_body(spec, topic, n):
    return {"brokers": [{"node_id": i, "host": h, "port": p} for i, (h, p) in spec["brokers"].items()],
            "topics": [{"error": 0, "topic": topic,
                        "partitions": [{"error": 0, "id": i, "leader": spec["topics"][topic][i], "replicas": [], "isr": []} for i in range(n)]}]}


def history_ops(rng, spec, kind):
    names = sorted(spec["topics"])
    sub = lambda: rng.sample(names, rng.randint(1, len(names)))
    if kind == "all":
        return [T("load_metadata_all")]
    if kind == "subset":
        s = sub()
        if rng.random() < 0.3:
            s.append(b"nx")
        return [T("load_metadata", [s])]
    if kind == "all_reset":
        return [T("load_metadata_all"), T("reset_metadata")]
    if kind == "all_reset_subset":
        return [T("load_metadata_all"), T("reset_metadata"), T("load_metadata", [sub()])]
    if kind == "subset_subset":
        return [T("load_metadata", [sub()]), T("load_metadata", [sub()])]
    if kind == "shrunk":
        big = [t for t in names if len(spec["topics"][t]) > 1]
        if not big:
            return [T("load_metadata_all")]
        t = rng.choice(big)
        n = rng.randint(1, len(spec["topics"][t]) - 1)
        return [T("load_metadata_all"),
                {"op": T("load_metadata", [[t]]), "mutate": {"kind": "body", "api": "metadata", "body": shrink_body(spec, t, n)}}]
    if kind in ("all_failedall", "all_failedsubset"):
        # a load that fails (the pooled connection refuses the write, no other bootstrap host can be reached): a full load has already
        # forgotten everything, a named load leaves what was known; the fault plan is lifted again by the next item
        failing = T("load_metadata_all") if kind == "all_failedall" else T("load_metadata", [sub()])
        return [T("load_metadata_all"),
                {"op": failing, "plan": {"write": {0: ["fail", "other"]}}, "unreachable": hosts_of(spec), "fails": True},
                {"op": T("topics"), "plan": None, "unreachable": []}]
    if kind == "none":
        return []
    raise ValueError(kind)


HISTORIES = ["all", "all", "all", "subset", "subset", "all_reset", "all_reset_subset", "subset_subset", "shrunk", "shrunk", "none",
             "all_failedall", "all_failedsubset"]


def entry(rng, view, routes, want=None):
    """-> (topic, partition, class)"""
    known = sorted(view)
    cls = want or rng.choice(["ok", "ok", "ok", "ok", "leaderless", "high", "high", "neg", "unknown", "unknown"])
    if cls == "unknown" or not known:
        return unknown_name(rng, known), rng.choice([0, 0, 1, -1, 99]), "unknown"
    t = rng.choice(known)
    n = len(view[t])
    if cls == "ok":
        led = [i for i in range(n) if (t, i) in routes]
        if led:
            return t, rng.choice(led), "ok"
        cls = "leaderless"
    if cls == "leaderless":
        ll = [(a, i) for a in known for i in range(len(view[a])) if (a, i) not in routes]
        if ll:
            a, i = rng.choice(ll)
            return a, i, "leaderless"
        cls = "high"
    if cls == "high":
        return t, rng.choice([n, n, n + 1, 99, I32MAX]), "high"
    return t, rng.choice([-1, -1, -2, I32MIN]), "neg"


def probe_ops(rng, view, routes, n, allow_empty_group_fetch):
    known = sorted(view)
    ops = []

    def entries(lo, hi, led_only=False, clean_p=0.3):
        k = rng.randint(lo, hi)
        if led_only:                                         # every entry known, in range, with a leader
            return [entry(rng, view, routes, "ok") for _ in range(k)]
        if rng.random() < clean_p:                           # every entry known and in range
            return [entry(rng, view, routes, rng.choice(["ok", "ok", "ok", "leaderless"])) for _ in range(k)]
        return [entry(rng, view, routes) for _ in range(k)]

    def names(lo, hi):
        out = []
        for _ in range(rng.randint(lo, hi)):
            out.append(rng.choice(known) if known and rng.random() < 0.6 else unknown_name(rng, known))
        return out

    kinds = ["fetch_messages", "fetch_offsets", "list_offsets", "fetch_topic_offsets", "produce_messages", "commit_offsets",
             "fetch_group_offsets", "fetch_group_topic_offset"]
    chosen = [rng.choice(kinds) for _ in range(n)]
    for k in chosen:
        if k == "fetch_messages":
            ops.append(T("fetch_messages", [[fp(t, p, 0) for t, p, _ in entries(1, 6)]]))
        elif k in ("fetch_offsets", "list_offsets"):
            ops.append(T(k, [names(0, 4), T(rng.choice(["latest", "earliest"]))]))
        elif k == "fetch_topic_offsets":
            ops.append(T(k, [names(1, 1)[0], T("latest")]))
        elif k == "produce_messages":
            es = entries(1, 5, rng.random() < 0.3)
            ops.append(T(k, [rng.choice([1, 1, -1, 0]), 1, 0, [pm(t, p, None, b"val%d" % i) for i, (t, p, _) in enumerate(es)]]))
        elif k == "commit_offsets":
            es = entries(0 if rng.random() < 0.1 else 1, 4, clean_p=0.5)
            ops.append(T(k, [G, [T("co", [t, p, rng.randint(0, 9)]) for t, p, _ in es]]))
        elif k == "fetch_group_offsets":
            es = entries(0 if allow_empty_group_fetch and rng.random() < 0.1 else 1, 4, clean_p=0.5)
            ops.append(T(k, [G, [T("fgo", [t, p]) for t, p, _ in es]]))
        elif k == "fetch_group_topic_offset":
            ops.append(T(k, [G, names(1, 1)[0]]))
    return ops


def regression_ops(rng, view):
    """the inputs of the historical defect: a known topic with a partition id outside its range"""
    ops = []
    if view:
        t = rng.choice(sorted(view))
        n = len(view[t])
        ops.append(T("commit_offsets", [G, [T("co", [t, 99, 5])]]))
        ops.append(T("fetch_group_offsets", [G, [T("fgo", [t, n])]]))
        if n:                                                # the boundary from inside: the last valid id is accepted
            ops.append(T("commit_offsets", [G, [T("co", [t, n - 1, 7])]]))
            ops.append(T("fetch_group_offsets", [G, [T("fgo", [t, n - 1])]]))
        if n and rng.random() < 0.5:
            ops.append(T("commit_offsets", [G, [T("co", [t, 0, 1]), T("co", [t, rng.choice([n, -1, I32MIN, I32MAX]), 5])]]))
    return ops


def producer_section(rng, view, routes):
    ops = [T("producer_build", [T("from_client"), [T("with_required_acks", [rng.choice([1, -1])])]])]
    known = sorted(view)
    for b in range(rng.randint(1, 3)):
        recs = []
        clean = rng.random() < 0.4
        for i in range(rng.randint(1, 5)):
            val = b"r%d-%d" % (b, i)
            k = rng.random()
            if k < 0.5:
                t, p, _ = entry(rng, view, routes, "ok" if clean else None)
                if p < 0:
                    p = rng.choice([99, I32MAX])      # a negative id means "unspecified" to the Producer: handled below
                recs.append(T("r", [t, p, b"", val]))
            else:
                t = rng.choice(known) if known and (clean or rng.random() < 0.75) else unknown_name(rng, known)
                key = b"" if rng.random() < 0.5 else bytes(rng.getrandbits(8) for _ in range(rng.randint(1, 6)))
                recs.append(T("r", [t, rng.choice([-1, -1, -2, I32MIN]), key, val]))
        ops.append(T("send_all", [recs]))
    ops.append(T("into_client"))
    return ops


def assignment(calls):
    """the builder keeps the LAST call per topic: topic -> [partition ids] ([] = all)"""
    a = {}
    for c in calls:
        if c.name == "with_topic":
            a[c.args[0]] = []
        elif c.name == "with_topic_partitions":
            a[c.args[0]] = list(c.args[1])
    return a


def assignment_outside(calls, view):
    return any(t not in view or any(not (0 <= p < len(view[t])) for p in ps) for t, ps in assignment(calls).items())


def consumer_section(rng, view, routes):
    """consumer creation is the last thing done with the client unless it is certain to succeed"""
    known = sorted(view)
    calls = []
    for _ in range(rng.randint(1, 2)):
        k = rng.random()
        if k < 0.25 or not known:
            t = unknown_name(rng, known)
            calls.append(T("with_topic", [t]) if rng.random() < 0.5 else T("with_topic_partitions", [t, [0]]))
            continue
        t = rng.choice(known)
        n = len(view[t])
        if k < 0.55:
            calls.append(T("with_topic", [t]))
        else:
            ps = []
            for _ in range(rng.randint(0, 3)):
                if n and rng.random() < 0.75:
                    ps.append(rng.randrange(n))
                else:
                    ps.append(rng.choice([n, n + 1, 99, -1, I32MIN, I32MAX]))
            calls.append(T("with_topic_partitions", [t, ps]))
    calls.append(T("with_fallback_offset", [T(rng.choice(["earliest", "latest"]))]))
    if rng.random() < 0.4:
        calls += [T("with_group", [G]), T("with_offset_storage", [rng.choice([0, 1])])]
    ops = [T("consumer_build", [T("from_client"), calls])]
    final = not assignment_outside(calls, view) and all(
        (t, p) in routes for t, ps in assignment(calls).items() for p in (ps or range(len(view[t])))) and all(view[t] for t in assignment(calls))
    if final:
        ops += [T("poll"), T("into_client")]
    return ops, not final


def from_hosts_case(rng):
    """Producer / Consumer that create their own client: the only metadata request they may send names no topic"""
    spec = cluster_spec(rng)
    m = replay_merge({"cluster": spec, "ops": [T("client_new", [[]]), T("load_metadata_all")]}, 1)
    view, routes = m.view, m.routes()
    if rng.random() < 0.5:
        ops = producer_section(rng, view, routes)
        ops[0] = T("producer_build", [T("from_hosts", [hosts_of(spec)]), ops[0].args[1]])
        ops.append(T("set_group_offset_storage", [1]))
        ops += probe_ops(rng, view, routes, rng.randint(2, 4), True)
        kind = "producer_from_hosts"
    else:
        ops, _ = consumer_section(rng, view, routes)
        ops[0] = T("consumer_build", [T("from_hosts", [hosts_of(spec)]), ops[0].args[1]])
        kind = "consumer_from_hosts"
    return {"cluster": spec, "ops": ops, "meta": {"kind": kind, "phases": 1}}


def make_case(rng, kind=None, two_phase=None):
    spec = cluster_spec(rng)
    kind = kind or rng.choice(HISTORIES)
    ops = [T("client_new", [hosts_of(spec)]), T("set_retry_max_attempts", [3])] + history_ops(rng, spec, kind)
    ops.append(T("set_group_offset_storage", [rng.choice([0, 1, 1])]))
    two_phase = rng.random() < 0.25 if two_phase is None else two_phase
    phases = 2 if two_phase and kind not in ("none", "all_failedall", "all_failedsubset") else 1
    tail = None
    for ph in range(phases):
        if ph == 1:
            names = sorted(spec["topics"])
            ops += rng.choice([[T("reset_metadata")],
                               [T("reset_metadata"), T("load_metadata", [rng.sample(names, rng.randint(1, len(names)))])],
                               [T("load_metadata", [rng.sample(names, rng.randint(1, len(names)))])],
                               [T("load_metadata_all")]])
        m = replay_merge({"cluster": spec, "ops": ops}, len(ops) - 1)
        view, routes = {t: list(v) for t, v in m.view.items()}, m.routes()
        pview, proutes = view, routes
        if kind in ("all_failedall", "all_failedsubset") and ph == 0:
            # the probes name what was known BEFORE the failed load (the oracle judges them against what is loaded after it)
            m0 = replay_merge({"cluster": spec, "ops": ops[:3]}, 2)
            pview, proutes = {t: list(v) for t, v in m0.view.items()}, m0.routes()
        has_conn = kind != "none"
        body = probe_ops(rng, pview, proutes, rng.randint(3, 6) if phases == 2 else rng.randint(5, 9), has_conn)
        body += regression_ops(rng, pview)
        rng.shuffle(body)
        ops += body
        if ph == phases - 1:
            r = rng.random()
            if r < 0.35:
                ops += producer_section(rng, view, routes)
                if rng.random() < 0.3:
                    c, bad = consumer_section(rng, view, routes)
                    ops += c
            elif r < 0.75:
                c, bad = consumer_section(rng, view, routes)
                ops += c
                if not bad and rng.random() < 0.3:
                    ops += producer_section(rng, view, routes)
    return {"cluster": spec, "ops": ops, "meta": {"kind": kind, "phases": phases}}


def gen(rng, tier):
    cases = []
    n = 900 if tier == "quick" else 12000
    for i in range(n):
        cases.append(make_case(rng, kind=HISTORIES[i % len(HISTORIES)]))
    for i in range(n // 10):
        cases.append(from_hosts_case(rng))
    return cases


# ---- oracle -----------------------------------------------------------------------------------------------------------

def mentions(payload):
    """-> (api, [(topic, partition|None)]) of one request"""
    rq = kproto.parse_request(payload)
    api, body = rq["api"], rq["body"]
    out = []
    if api == "metadata":
        out = [(t, None) for t in (body["topics"] or [])]
    elif api == "group_coordinator":
        out = []
    else:
        for t in body["topics"] or []:
            ps = t["partitions"] or []
            if not ps:
                out.append((t["topic"], None))
            for p in ps:
                out.append((t["topic"], p if isinstance(p, int) else p["partition"]))
    return api, out


def wrote(rec):
    return bool(rec["requests"]) or any(e.name == "write" for e in rec["raw_events"])


def classify(view, routes, t, p):
    if t not in view:
        return "unknown"
    if not (0 <= p < len(view[t])):
        return "range"
    return "ok" if (t, p) in routes else "leaderless"


UNKNOWN = T("err", [T("kafka", [3])])
LOADS = ("load_metadata_all", "load_metadata")


def oracle(case, recs, cl):
    fails = []
    if recs and recs[-1]["impl"].name in ("panic", "hang", "abort", "harness_error"):
        return ["C20: op %d (%s) crashed: %s" % (len(recs) - 1, recs[-1]["op"].name, dumps(recs[-1]["impl"])[:120])]
    if len(recs) < len(case["ops"]):
        return ["C20: case aborted early"]
    producer_view = None
    for i, rec in enumerate(recs):
        op, res = rec["op"], rec["impl"]
        if op.name in LOADS or op.name in ("client_new", "reset_metadata", "set_group_offset_storage", "set_retry_max_attempts", "into_client"):
            planned = isinstance(case["ops"][i], dict) and case["ops"][i].get("fails")
            if op.name in LOADS and res.name != "ok" and not planned:
                fails.append("C20 op %d: metadata load failed: %s" % (i, dumps(res)[:80]))
            if op.name in LOADS and res.name == "ok" and planned:
                fails.append("C20 op %d: the metadata load could reach no host but returned %s" % (i, dumps(res)[:80]))
            continue
        m = replay_merge(case, i, recs)
        view, routes = m.view, m.routes()

        def bad(what):
            fails.append("C20 op %d (%s): %s; result %s" % (i, op.name, what, dumps(res)[:100]))

        # (1) no request other than an explicit load names anything outside the loaded metadata
        for h, payload in rec["requests"]:
            try:
                api, ms = mentions(payload)
            except kproto.ProtoError:
                bad("unparsable request sent to %s" % h.decode())
                continue
            for t, p in ms:
                if api == "metadata":
                    bad("metadata request names topic %r although no load of named topics was asked for" % t)
                elif t not in view:
                    bad("%s request to %s names topic %r which is not in the loaded metadata" % (api, h.decode(), t))
                elif p is not None and not (0 <= p < len(view[t])):
                    bad("%s request to %s names %s:%d but the loaded metadata has %d partitions" % (api, h.decode(), t.decode(), p, len(view[t])))

        own_client = op.name in ("consumer_build", "producer_build") and op.args[0].name == "from_hosts"

        def must_reject(reason):
            if res != UNKNOWN:
                bad("%s: expected UnknownTopicOrPartition" % reason)
            if wrote(rec) and not own_client:
                bad("%s: the call must fail before anything is sent, but bytes were written" % reason)

        # (2) per operation: what happens to entries outside the loaded metadata
        if op.name == "fetch_messages":
            if res.name != "ok":
                bad("fetch must silently leave unknown entries out")
            else:
                asked = [(x.args[0], x.args[1]) for x in op.args[0]]
                got = [(tt.args[0], p.args[0]) for r in res.args[0] for tt in r.args[1] for p in tt.args[1]]
                for tp in got:
                    if classify(view, routes, *tp) != "ok":
                        bad("result carries %s:%d which is outside the loaded metadata" % (tp[0].decode(), tp[1]))
                for tp in set(asked):
                    if classify(view, routes, *tp) == "ok" and tp not in got:
                        bad("known entry %s:%d missing from the result" % (tp[0].decode(), tp[1]))
        elif op.name in ("fetch_offsets", "list_offsets"):
            if res.name != "ok":
                bad("offset lookup must silently leave unknown topics out")
            else:
                for tt in res.args[0]:
                    if tt.args[0] not in view:
                        bad("result names unknown topic %r" % tt.args[0])
                for t in set(op.args[0]):
                    led = [p for (a, p) in routes if a == t]
                    got = [tt for tt in res.args[0] if tt.args[0] == t]
                    if led and (len(got) != 1 or set(po.args[0] for po in got[0].args[1]) != set(led)):
                        bad("known topic %r must be answered for partitions %s" % (t, sorted(led)))
        elif op.name == "fetch_topic_offsets":
            t = op.args[0]
            if t not in view:
                must_reject("offset lookup for the single unknown topic %r" % t)
            elif any(a == t for (a, _) in routes) and res.name != "ok":
                bad("offset lookup for a known topic failed")
        elif op.name == "produce_messages":
            cs = [classify(view, routes, x.args[0], x.args[1]) for x in op.args[3]]
            if any(c in ("unknown", "range") for c in cs):
                must_reject("produce with an entry outside the loaded metadata")
            elif "leaderless" in cs:
                must_reject("produce to a partition without leader")
            elif res.name != "ok":
                bad("produce to known partitions failed")
        elif op.name in ("commit_offsets", "fetch_group_offsets"):
            cs = [classify(view, routes, x.args[0], x.args[1]) for x in op.args[1]]
            if any(c in ("unknown", "range") for c in cs):
                must_reject("%s with an entry outside the loaded metadata" % op.name)
            elif res.name != "ok":
                bad("%s over known partitions failed" % op.name)
        elif op.name == "fetch_group_topic_offset":
            if op.args[1] not in view:
                must_reject("group offset fetch for unknown topic %r" % op.args[1])
            elif res.name != "ok":
                bad("group offset fetch for a known topic failed")
        elif op.name == "producer_build":
            producer_view = ({t: list(v) for t, v in view.items()}, dict(routes))
            if res.name != "ok":
                bad("producer creation failed")
        elif op.name == "send_all":
            pview, proutes = producer_view
            unroutable = False
            for x in op.args[0]:
                t, p, key = x.args[0], x.args[1], x.args[2]
                if t not in view:
                    unroutable = True
                elif p >= 0:
                    unroutable |= classify(view, routes, t, p) != "ok"
                elif key:                                    # unspecified partition, keyed: hash mod partition count (C12)
                    n = len(pview.get(t, []))
                    unroutable |= n == 0 or classify(view, routes, t, xxh32(key) % n) != "ok"
                else:                                        # unspecified, keyless: some partition with a leader
                    unroutable |= not any(a == t for (a, _) in proutes)
            if unroutable:
                must_reject("send_all with a record without known destination")
            elif res.name != "ok":
                bad("send_all to known partitions failed")
        elif op.name == "consumer_build":
            if assignment_outside(op.args[1], view):
                must_reject("consumer for a topic/partition outside the loaded metadata")
        if len(fails) >= 6:
            break
    return fails[:6]


def _has_outside_entry(case, recs):
    for i, rec in enumerate(recs):
        op = rec["op"]
        if op.name in ("fetch_messages", "produce_messages", "commit_offsets", "fetch_group_offsets", "send_all", "fetch_offsets",
                       "list_offsets", "fetch_topic_offsets", "fetch_group_topic_offset", "consumer_build"):
            m = replay_merge(case, i, recs)
            if op.name == "fetch_messages":
                es = [(x.args[0], x.args[1]) for x in op.args[0]]
            elif op.name == "produce_messages":
                es = [(x.args[0], x.args[1]) for x in op.args[3]]
            elif op.name in ("commit_offsets", "fetch_group_offsets"):
                es = [(x.args[0], x.args[1]) for x in op.args[1]]
            elif op.name == "send_all":
                es = [(x.args[0], max(x.args[1], 0)) for x in op.args[0]]
            elif op.name in ("fetch_offsets", "list_offsets"):
                es = [(t, 0) for t in op.args[0] if t not in m.view]
            elif op.name == "fetch_topic_offsets":
                es = [(op.args[0], 0)] if op.args[0] not in m.view else []
            elif op.name == "fetch_group_topic_offset":
                es = [(op.args[1], 0)] if op.args[1] not in m.view else []
            else:
                if assignment_outside(op.args[1], m.view):
                    return True
                es = []
            if any(classify(m.view, m.routes(), t, p) in ("unknown", "range") for t, p in es):
                return True
    return False


def nontrivial(case, recs):
    if len(recs) < len(case["ops"]):
        return False
    named_known = False
    for rec in recs:
        if rec["op"].name in LOADS:
            continue
        for h, payload in rec["requests"]:
            try:
                api, ms = mentions(payload)
            except kproto.ProtoError:
                continue
            if api != "metadata" and ms:
                named_known = True
    return named_known and _has_outside_entry(case, recs)


def stats(case, recs):
    s = {"history:" + case["meta"]["kind"]: 1, "phases:%d" % case["meta"]["phases"]: 1}
    for i, rec in enumerate(recs):
        op = rec["op"]
        if op.name in LOADS or op.name in ("client_new", "reset_metadata", "set_group_offset_storage", "set_retry_max_attempts", "into_client"):
            continue
        key = "call:%s:%s" % (op.name, "rejected" if rec["impl"] == UNKNOWN else rec["impl"].name)
        s[key] = s.get(key, 0) + 1
        es = []
        if op.name == "fetch_messages":
            es = [(x.args[0], x.args[1]) for x in op.args[0]]
        elif op.name == "produce_messages":
            es = [(x.args[0], x.args[1]) for x in op.args[3]]
        elif op.name in ("commit_offsets", "fetch_group_offsets"):
            es = [(x.args[0], x.args[1]) for x in op.args[1]]
        if es:
            m = replay_merge(case, i, recs)
            for t, p in es:
                c = classify(m.view, m.routes(), t, p)
                if c == "range":
                    c = "partition_negative" if p < 0 else "partition_too_high"
                s["entry:" + c] = s.get("entry:" + c, 0) + 1
        for h, payload in rec["requests"]:
            try:
                api, ms = mentions(payload)
            except kproto.ProtoError:
                continue
            s["request_seen:" + api] = s.get("request_seen:" + api, 0) + 1
    return s
