"""C09: every request on the wire is a well-formed Kafka v0 frame stating what was asked.

The oracle replays the case on a tiny description of what the CALLER configured (client id, fetch settings,
compression, offset storage, which topics the client has metadata for) and, for every op, computes from the
case's cluster (leaders, coordinator) and the op's arguments what must be on the wire; it then compares with
the frames the reference brokers received, parsed strictly by kproto."""
import struct

import kproto
from val import T, dumps
from props.common import boot_ops, brokers, fp, pm, rand_bytes

SLICE = "request encoders (ToByte impls, HeaderRequest), __send_request framing, per-broker request assembly in KafkaClient, correlation counter"
RULE = ("enumerated: every public client operation x a string of length 0/1/32767/32768/40000 in each string role (client id, group, "
        "topic argument; existing and unknown topics), x extreme i64 offsets/times and i32 max_bytes, x fetch settings, compression and "
        "both offset storages; random: 2-5 calls per case over clusters of 1-3 brokers, 1-4 topics (names incl. empty, multi-byte and "
        "32767-byte ones), 1-5 partitions (up to 40 in the 'many' family), leaderless partitions, duplicate and unknown arguments, empty "
        "lists; scripted coordinator retries; unreachable bootstrap hosts; a broker missing from the broker list of a later by-name reload "
        "(the topics that were not reloaded keep their leaders); 6 fixed cases start the correlation counter near 2^30 through "
        "the verification hook; non-trivial = some call of the case put at least two topic-partitions on the wire or the case carries a "
        "boundary value (string length 0/32767/32768/40000, an extreme integer, an empty list)")
ASSUMPTIONS = ["kproto.parse_request is an independent strict reading of the Kafka 0.8/0.9 request grammar (golden layouts in its self-test)",
               "SimNet cuts the byte stream into frames by the length prefix only; the oracle additionally compares the bytes accepted by "
               "every connection with the concatenation of length-prefixed frames",
               "duplicates in the argument list: fetch keeps the later entry once (one fetch position per partition); every other call "
               "states each occurrence",
               "before an unrepresentable client id is configured the generated case connects the client to every leader: a multi-broker "
               "call that fails while encoding shows its hash-map order only as a connect event, which the correspondence check cannot "
               "replay in the model (the oracle itself does not depend on it)",
               "when a call is refused because an argument has no destination (unknown topic/partition) the oracle only requires that "
               "whatever is written is part of what was asked"]
EXHAUSTIVE = False

I16MAX = 32767
I32MAX, I32MIN = 2 ** 31 - 1, -2 ** 31
I64MAX, I64MIN = 2 ** 63 - 1, -2 ** 63
WRAP = 1 << 30
LENGTHS = [0, 1, 32767, 32768, 40000]
OFFSETS = [0, 1, -1, -2, I64MAX, I64MIN, I32MAX]
MAXBYTES = [-1, 0, 1, I32MAX]

API_OF_OP = {"load_metadata": "metadata", "load_metadata_all": "metadata", "fetch_offsets": "offsets",
             "fetch_topic_offsets": "offsets", "list_offsets": "list_offsets", "fetch_messages": "fetch",
             "produce_messages": "produce", "commit_offsets": "offset_commit", "fetch_group_offsets": "offset_fetch",
             "fetch_group_topic_offset": "offset_fetch"}
GROUP_OPS = ("commit_offsets", "fetch_group_offsets", "fetch_group_topic_offset")


# =====================================================================================================
# the oracle
# =====================================================================================================

class Caller:
    """what the caller has configured so far (documented defaults of KafkaClient::new)"""

    def __init__(self, bootstrap):
        self.bootstrap = list(bootstrap)
        self.client_id = b""
        self.max_wait = 100
        self.min_bytes = 4096
        self.max_bytes = 32 * 1024
        self.compression = 0
        self.storage = None
        self.known = {}          # topic -> [leader node | -1] as far as the client has loaded metadata


def _host_of(spec, node):
    b = spec["brokers"].get(node)
    if b is None:
        return None
    return b[0] + b":" + str(b[1]).encode()


def _time_of(v):
    return -1 if v.name == "latest" else -2 if v.name == "earliest" else v.args[0]


def _millis(secs, nanos):
    return secs * 1000 + nanos // 1000000


def _leader_host(spec, st, topic, p):
    ls = st.known.get(topic)
    if ls is None or not (0 <= p < len(ls)):
        return None
    return _host_of(spec, ls[p])


def _known_partition(st, topic, p):
    ls = st.known.get(topic)
    return ls is not None and 0 <= p < len(ls)


class Exp:
    """expected wire content of one call"""

    def __init__(self, api=None, ver=0):
        self.api, self.ver = api, ver
        self.hosts = {}            # host -> (fixed fields tuple, entries list)
        self.group = None          # coordinator lookups for this group may precede the main request
        self.subset = False        # the call is refused (argument without destination): what is sent may only be part of it
        self.repeat = False        # scripted retries: the same main request may be sent again
        self.optional = False      # nothing to state: sending nothing is as good as sending the empty request
        self.strings = []          # strings the frames of this call must carry besides the client id
        self.refused = set()       # acceptable error kinds when the call cannot be made at all
        self.ordered = False       # the body is a sequence (metadata topic list), not a collection
        self.codec = 0
        self.must_write = False    # with representable strings at least one frame goes out


def expect(op, st, spec, case):
    n, a = op.name, op.args
    api = API_OF_OP.get(n)
    if api is None:
        return Exp()
    e = Exp(api)
    if n in ("load_metadata", "load_metadata_all"):
        names = list(a[0]) if n == "load_metadata" else []
        unreachable = set(case.get("unreachable", ()))
        target = [h for h in st.bootstrap if h not in unreachable]
        if not target:
            e.refused = {"no_host_reachable"}
            return e
        e.hosts[target[0]] = ((), [("topic", t) for t in names])
        e.ordered = True
        e.must_write = True
        e.strings = names
        e.refused = {"no_host_reachable"}
        return e
    if n in ("fetch_offsets", "list_offsets", "fetch_topic_offsets"):
        names = [a[0]] if n == "fetch_topic_offsets" else list(a[0])
        tm = _time_of(a[1])
        for t in names:
            for p in range(len(st.known.get(t, []))):
                h = _leader_host(spec, st, t, p)
                if h is not None:
                    ent = (t, p, tm, 1) if api == "offsets" else (t, p, tm)
                    e.hosts.setdefault(h, ((-1,), []))[1].append(ent)
        e.ver = 0 if api == "offsets" else 1
        e.refused = {"codec"}
        e.must_write = bool(e.hosts)
        return e
    if n == "fetch_messages":
        last = {}
        for x in a[0]:
            t, p, off, mb = x.args
            h = _leader_host(spec, st, t, p)
            if h is not None:
                last[(h, t, p)] = (off, mb if mb > 0 else st.max_bytes)
        for (h, t, p), (off, mb) in last.items():
            e.hosts.setdefault(h, ((-1, st.max_wait, st.min_bytes), []))[1].append((t, p, off, mb))
        e.refused = {"codec"}
        e.must_write = bool(e.hosts)
        return e
    if n == "produce_messages":
        acks, secs, nanos, msgs = a
        ms = _millis(secs, nanos)
        if ms > I32MAX:
            e.refused = {"invalid_duration"}
            return e
        per = {}
        for x in msgs:
            t, p, k, v = x.args
            h = _leader_host(spec, st, t, p)
            if h is None:
                e.subset = True
                e.refused.add("kafka3")
                continue
            key = None if k.name == "none" else k.args[0]
            val = None if v.name == "none" else v.args[0]
            per.setdefault(h, {}).setdefault((t, p), []).append((key, val))
        for h, d in per.items():
            e.hosts[h] = ((acks, ms), [(t, p, tuple(rs)) for (t, p), rs in d.items()])
        e.refused.add("codec")
        e.codec = st.compression
        e.must_write = bool(e.hosts) and not e.subset
        return e
    # group calls
    g = a[0]
    if st.storage is None:
        e.refused = {"unset_offset_storage"}
        return e
    e.ver = st.storage
    e.group = g
    e.strings = [g]
    coord = _host_of(spec, spec.get("coordinator", {}).get(g, min(spec["brokers"])))
    e.refused = {"codec"}
    if n == "commit_offsets":
        per = {}
        order = []
        for x in a[1]:
            t, p, off = x.args
            if not _known_partition(st, t, p):
                e.subset = True
                e.refused.add("kafka3")
                continue
            if t not in per:
                order.append(t)
            per.setdefault(t, []).append((p, off, -1 if st.storage == 1 else None, b""))
        fixed = (g, -1, b"") if st.storage == 1 else (g, None, None)
        e.hosts[coord] = (fixed, [(t, tuple(per[t])) for t in order])
        if not a[1]:
            e.optional = True
        e.must_write = bool(a[1]) and not e.subset
        return e
    if n == "fetch_group_offsets":
        ents = []
        for x in a[1]:
            t, p = x.args
            if not _known_partition(st, t, p):
                e.subset = True
                e.refused.add("kafka3")
                continue
            ents.append((t, p))
        e.hosts[coord] = ((g,), ents)
        e.must_write = not e.subset
        return e
    if n == "fetch_group_topic_offset":
        t = a[1]
        if t not in st.known:
            e.refused = {"kafka3"}
            e.group = None
            return e
        e.hosts[coord] = ((g,), [(t, p) for p in range(len(st.known[t]))])
        e.must_write = True
        return e
    raise AssertionError(n)


def canon(rq):
    """(fixed fields, entries) of a parsed request, in the shape used by `expect`"""
    api, b = rq["api"], rq["body"]
    if api == "metadata":
        if b["topics"] is None:
            return (("null-array",), [])
        return ((), [("topic", t) for t in b["topics"]])
    if api == "group_coordinator":
        return ((b["group"],), [])
    tps = b["topics"]
    if tps is None:
        return (("null-array",), [])
    ents = []
    if api in ("offsets", "list_offsets", "fetch"):
        for t in tps:
            for p in (t["partitions"] if t["partitions"] is not None else [None]):
                if p is None:
                    ents.append((t["topic"], "null-array"))
                elif api == "offsets":
                    ents.append((t["topic"], p["partition"], p["time"], p["max_offsets"]))
                elif api == "list_offsets":
                    ents.append((t["topic"], p["partition"], p["time"]))
                else:
                    ents.append((t["topic"], p["partition"], p["offset"], p["max_bytes"]))
        if api == "fetch":
            return ((b["replica_id"], b["max_wait"], b["min_bytes"]), ents)
        return ((b["replica_id"],), ents)
    if api == "produce":
        d, order = {}, []
        for t in tps:
            for p in t["partitions"] or []:
                k = (t["topic"], p["partition"])
                if k not in d:
                    order.append(k)
                try:
                    recs = [(key, val) for (_, key, val) in kproto.decode_message_set_deep(p["message_set"] or b"")]
                except kproto.ProtoError as ex:
                    recs = [("undecodable message set", str(ex)[:60])]
                d.setdefault(k, []).extend(recs)
        return ((b["acks"], b["timeout"]), [(t, p, tuple(d[(t, p)])) for (t, p) in order])
    if api == "offset_commit":
        d, order = {}, []
        for t in tps:
            if t["topic"] not in d:
                order.append(t["topic"])
            for p in t["partitions"] or []:
                d.setdefault(t["topic"], []).append((p["partition"], p["offset"], p.get("timestamp"), p["metadata"]))
            d.setdefault(t["topic"], [])
        fixed = (b["group"], b.get("generation_id"), b.get("member_id"))
        return (fixed, [(t, tuple(d[t])) for t in order if d[t]])
    if api == "offset_fetch":
        for t in tps:
            for p in t["partitions"] or []:
                ents.append((t["topic"], p))
        return ((b["group"],), ents)
    raise AssertionError(api)


def _short(x, n=110):
    s = repr(x)
    return s if len(s) <= n else s[:n] + "...(%d chars)" % len(s)


def _multiset_diff(exp, obs):
    """-> (missing, extra) as lists"""
    rest = list(obs)
    missing = []
    for x in exp:
        if x in rest:
            rest.remove(x)
        else:
            missing.append(x)
    return missing, rest


def produce_codecs(rq):
    out = set()
    for t in rq["body"]["topics"] or []:
        for p in t["partitions"] or []:
            try:
                for m in kproto.parse_message_set(p["message_set"] or b""):
                    out.add(m["attr"] & 7)
            except kproto.ProtoError:
                out.add("unparsable")
    return out


def err_kind(res):
    if res.name != "err":
        return None
    e = res.args[0]
    if e.name == "kafka":
        return "kafka%d" % e.args[0]
    return e.name


def check_op(idx, rec, st, spec, case, ids_state, scripted):
    """-> list of failure strings for one op"""
    fails = []
    op = rec["op"]
    tag = "op %d %s" % (idx, op.name)

    def bad(msg, cls="C09"):
        fails.append("%s: %s: %s" % (cls, tag, msg))

    if rec["impl"].name in ("panic", "hang", "abort", "harness_error"):
        bad("call crashed: %s" % dumps(rec["impl"])[:100])
        return fails
    # ---- (1) complete frames, length prefix = payload length, strict parse
    if rec["leftover"]:
        bad("incomplete frame left on the wire: %r bytes" % (rec["leftover"],))
    written = {}
    for ev in rec["raw_events"]:
        if ev.name == "write" and ev.args[2].name == "wrote":
            written[ev.args[0]] = written.get(ev.args[0], b"") + ev.args[1][:ev.args[2].args[0]]
    framed = {}
    for h, p in rec["requests"]:
        framed[h] = framed.get(h, b"") + struct.pack(">i", len(p)) + p
    if not rec["leftover"] and written != framed:
        hs = [h for h in set(written) | set(framed) if written.get(h) != framed.get(h)]
        bad("bytes written to %r are not the sequence of length-prefixed frames received (%d vs %d bytes)" %
            (hs[0], len(written.get(hs[0], b"")), len(framed.get(hs[0], b""))))
    parsed = []
    for h, p in rec["requests"]:
        try:
            parsed.append((h, kproto.parse_request(p), p))
        except kproto.ProtoError as ex:
            bad("frame of %d bytes to %r does not parse: %s" % (len(p), h, str(ex)[:100]))
    if len(parsed) != len(rec["requests"]):
        return fails
    e = expect(op, st, spec, case)
    # ---- (5) unrepresentable strings: an error, and nothing at all is written
    too_long = [s for s in [st.client_id] + list(e.strings) if len(s) > I16MAX]
    if too_long:
        if e.must_write:
            kind = err_kind(rec["impl"])
            if kind is None:
                bad("a %d-byte string cannot be represented but the call returned %s" % (len(too_long[0]), dumps(rec["impl"])[:60]))
            elif kind not in e.refused:
                bad("unrepresentable %d-byte string: expected error %s, got %s" % (len(too_long[0]), sorted(e.refused), kind))
        if written or rec["requests"]:
            bad("a %d-byte string cannot be represented but %d bytes were written (%d complete frames)" %
                (len(too_long[0]), sum(len(v) for v in written.values()), len(rec["requests"])))
        return fails
    # ---- (2) header, (4) body
    seen_main = {}
    main_ids, coord_ids = [], []
    broker_hosts = [_host_of(spec, nd) for nd in spec["brokers"]]
    for h, rq, payload in parsed:
        if rq["client_id_raw"] != st.client_id:
            bad("header client id %s, configured %s" % (_short(rq["client_id_raw"], 40), _short(st.client_id, 40)))
        if rq["api"] == "group_coordinator" and e.group is not None:
            coord_ids.append((rq["correlation_id"], payload))
            if rq["body"]["group"] != e.group:
                bad("coordinator lookup for group %s, the caller named %s" % (_short(rq["body"]["group"], 40), _short(e.group, 40)))
            if h not in broker_hosts:
                bad("coordinator lookup sent to %r which is no broker" % h)
            continue
        main_ids.append(rq["correlation_id"])
        if e.api is None:
            bad("%s request on the wire for an operation that asks nothing of the cluster" % rq["api"])
            continue
        if (rq["api"], rq["api_version"]) != (e.api, e.ver):
            bad("expected %s v%d, found api key %d v%d (%s)" % (e.api, e.ver, rq["api_key"], rq["api_version"], rq["api"]))
            continue
        if h not in e.hosts:
            bad("%s request sent to %r which leads nothing of what was asked (expected %s)" % (e.api, h, sorted(e.hosts)))
            continue
        if h in seen_main:
            if not (e.repeat or scripted):
                bad("two %s requests to %r in one call" % (e.api, h))
            if seen_main[h] != payload:
                bad("retried request to %r differs from the first one" % h)
        seen_main[h] = payload
        xf, xe = e.hosts[h]
        of, oe = canon(rq)
        if of != xf:
            bad("%s to %r: fields %s, expected %s" % (e.api, h, _short(of, 80), _short(xf, 80)))
        if e.ordered:
            if oe != xe:
                bad("%s to %r: body lists %s, asked %s" % (e.api, h, _short(oe), _short(xe)))
        else:
            missing, extra = _multiset_diff(xe, oe)
            if extra:
                bad("%s to %r states what was not asked (or not led by it): %s" % (e.api, h, _short(extra)))
            if missing and not e.subset:
                bad("%s to %r omits what was asked: %s" % (e.api, h, _short(missing)))
        if e.api == "produce":
            cs = produce_codecs(rq)
            if cs - {e.codec}:
                bad("produce to %r: message sets use codec %s, configured compression %d" % (h, sorted(map(str, cs)), e.codec))
    if e.must_write and not scripted:
        for h in e.hosts:
            if h not in seen_main and not (e.optional and not e.hosts[h][1]):
                bad("no %s request reached %r, expected %s" % (e.api, h, _short(e.hosts[h][1])))
    # ---- (3) correlation ids
    ids = main_ids + [c for c, _ in coord_ids]
    if ids:
        def corr_fail(msg, lo, hi):
            wrapped = ids_state.get("hook") is not None and hi >= WRAP - 8 and lo < 8
            bad(msg, "C09-correlation-wrap" if wrapped else "C09")

        failed = False
        ms = sorted(set(main_ids))
        if len(ms) > 1:
            failed = True
            corr_fail("requests of one call carry different correlation ids %s" % ms, ms[0], ms[-1])
        prev = None
        for c, payload in coord_ids:
            if prev is not None:
                if c < prev[0]:
                    failed = True
                    corr_fail("coordinator lookup id went from %d to %d" % (prev[0], c), c, prev[0])
                elif c == prev[0] and payload != prev[1]:
                    bad("two different lookups share correlation id %d" % c)
            prev = (c, payload)
        # the ids in the order in which the frames of this call went out ("a correlation id that never decreases"): the group calls
        # take the id of the commit / offset-fetch request BEFORE that of the coordinator lookup they then send first, so the lookup's
        # frame (id c+2) precedes the request's frame (id c+1); known finding, class C09-lookup-id-order
        wire = [(rq["correlation_id"], rq["api"]) for _, rq, _ in parsed]
        for (c0, a0), (c1, a1) in zip(wire, wire[1:]):
            if c1 < c0 and not (ids_state.get("hook") is not None and c0 >= WRAP - 8 and c1 < 8):
                lookup_first = a0 == "group_coordinator" and a1 in ("offset_commit", "offset_fetch")
                bad("frame of %s with correlation id %d goes out after the frame of %s with id %d" % (a1, c1, a0, c0),
                    "C09-lookup-id-order" if lookup_first else "C09")
                break
        last = ids_state.get("max")
        if last is not None and min(ids) <= last:
            failed = True
            corr_fail("correlation id %d follows %d: not above the ids of the earlier calls" % (min(ids), last), min(ids), last)
        if min(ids) < 0:
            bad("negative correlation id %d" % min(ids))
        # after a reported break the comparison restarts from what this call used
        ids_state["max"] = max(ids) if (last is None or failed) else max(last, max(ids))
    return fails


def update(op, rec, st, spec):
    n, a = op.name, op.args
    ok = rec["impl"].name == "ok"
    if n == "client_new":
        return Caller(a[0])
    if n == "set_client_id":
        st.client_id = a[0]
    elif n == "set_fetch_min_bytes":
        st.min_bytes = a[0]
    elif n == "set_fetch_max_bytes_per_partition":
        st.max_bytes = a[0]
    elif n == "set_fetch_max_wait_time":
        if _millis(a[0], a[1]) <= I32MAX:
            st.max_wait = _millis(a[0], a[1])
    elif n == "set_compression":
        st.compression = a[0]
    elif n == "set_group_offset_storage":
        st.storage = a[0] if a[0] in (0, 1) else None
    elif n == "load_metadata_all":
        st.known = {t: list(ls) for t, ls in spec["topics"].items()} if ok else {}
    elif n == "reset_metadata":
        st.known = {}
    elif n == "load_metadata" and ok:
        for t in (a[0] if a[0] else list(spec["topics"])):
            st.known[t] = list(spec["topics"].get(t, []))
    return st


def oracle(case, recs, cl):
    fails = []
    spec = case["cluster"]
    st = Caller([])
    ids_state = {"max": None, "hook": None}
    scripted = bool(case.get("meta", {}).get("scripted"))
    for i, rec in enumerate(recs):
        op = rec["op"]
        if op.name == "set_correlation":
            ids_state["hook"] = op.args[0]
            # the hook moves the counter: ids are compared from here on
            ids_state["max"] = op.args[0] if ids_state["max"] is None or op.args[0] >= ids_state["max"] else ids_state["max"]
        fails += check_op(i, rec, st, spec, case, ids_state, scripted)
        st = update(op, rec, st, spec)
    if len(recs) < len(case["ops"]) and not fails:
        fails.append("C09: case aborted early at op %d: %s" % (len(recs) - 1, dumps(recs[-1]["impl"])[:100]))
    return fails[:8]


def _wire_entries(rec):
    n = 0
    for h, p in rec["requests"]:
        try:
            rq = kproto.parse_request(p)
        except kproto.ProtoError:
            continue
        if rq["api"] == "group_coordinator":
            continue
        n = max(n, sum(len(x[2]) if rq["api"] == "produce" else len(x[1]) if rq["api"] == "offset_commit" else 1
                       for x in canon(rq)[1]))
    return n


def nontrivial(case, recs):
    if len(recs) < len(case["ops"]):
        return False
    if case["meta"].get("boundary"):
        return True
    return any(_wire_entries(r) >= 2 for r in recs)


def stats(case, recs):
    s = {"family:" + case["meta"]["family"]: 1, "brokers:%d" % len(case["cluster"]["brokers"]): 1}
    for r in recs:
        n = r["op"].name
        if n in API_OF_OP:
            s["call:" + n] = s.get("call:" + n, 0) + 1
            k = "outcome:" + ("ok" if r["impl"].name == "ok" else err_kind(r["impl"]) or r["impl"].name)
            s[k] = s.get(k, 0) + 1
        for h, p in r["requests"]:
            try:
                a = kproto.parse_request(p)
            except kproto.ProtoError:
                continue
            k = "wire:%s.v%d" % (a["api"], a["api_version"])
            s[k] = s.get(k, 0) + 1
    for b in case["meta"].get("bounds", []):
        s["boundary:" + b] = s.get("boundary:" + b, 0) + 1
    return s


# =====================================================================================================
# the generator
# =====================================================================================================

class G:
    def __init__(self, rng, family):
        self.rng = rng
        self.family = family
        self.bounds = set()

    def mark(self, what):
        self.bounds.add(what)

    def name_of_len(self, n, ch=b"a"):
        self.mark("len%d" % n)
        if n <= 1:
            return ch * n
        return (ch * n)[:n]

    def offset(self, p=0.45):
        if self.rng.random() < p:
            v = self.rng.choice(OFFSETS + [I32MAX + 1, I64MAX - 1])
            self.mark("int64")
            return v
        return self.rng.randint(0, 50)

    def time(self):
        r = self.rng.random()
        if r < 0.25:
            return T("latest")
        if r < 0.5:
            return T("earliest")
        self.mark("time")
        return T("bytime", [self.rng.choice(OFFSETS + [self.rng.randint(0, 2 ** 41)])])

    def max_bytes(self):
        if self.rng.random() < 0.5:
            return -1
        v = self.rng.choice(MAXBYTES + [-2, I32MIN, 1024, 77])
        if v in (0, 1, I32MAX, I32MIN):
            self.mark("max_bytes")
        return v

    def short(self):
        r = self.rng.random()
        if r < 0.6:
            return rand_bytes(self.rng, 1, 6, b"abcxyz-_.09")
        if r < 0.85:
            return "té€\U0001f980".encode()[:self.rng.choice([3, 6, 10])]
        return rand_bytes(self.rng, 1, 2, b"ab")

    def string(self, boundary=0.25):
        """client id / group"""
        if self.rng.random() < boundary:
            return self.name_of_len(self.rng.choice(LENGTHS), b"i")
        return self.short()


def gen_cluster(g, many=False, special=0.12):
    rng = g.rng
    nb = rng.randint(1, 3)
    names = set()
    nt = rng.choice([1, 2, 2, 3, 4]) if not many else rng.choice([1, 2, 10])
    while len(names) < nt:
        r = rng.random()
        if r < special / 2:
            names.add(g.name_of_len(0))
        elif r < special:
            names.add(g.name_of_len(32767, bytes([rng.choice(b"abc")])))
        else:
            names.add(g.short())
    topics = {}
    for t in sorted(names):
        if many:
            n = 40 if nt <= 2 else 4
        else:
            n = rng.choice([1, 1, 2, 3, 4, 5])
        topics[t] = [(-1 if rng.random() < 0.12 else rng.randint(1, nb)) for _ in range(n)]
    spec = {"brokers": brokers(nb), "topics": topics, "logs": {}}
    if rng.random() < 0.3:
        spec["order"] = rng.choice(["reversed", rng.randint(0, 99)])
    return spec


def topic_arg(g, spec, existing=0.72):
    rng = g.rng
    r = rng.random()
    names = sorted(spec["topics"])
    if r < existing and names:
        return rng.choice(names)
    if r < existing + 0.1:
        return b"nope" + rand_bytes(rng, 0, 2, b"xy")
    return g.name_of_len(rng.choice(LENGTHS), b"u")


def part_arg(g, spec, t, valid=0.85):
    n = len(spec["topics"].get(t, []))
    if g.rng.random() < valid and n:
        return g.rng.randrange(n)
    g.mark("partition")
    return g.rng.choice([-1, n, I32MAX, I32MIN, n + 7])


def value_arg(g):
    r = g.rng.random()
    if r < 0.15:
        return None
    if r < 0.3:
        return b""
    if r < 0.9:
        return rand_bytes(g.rng, 1, 20)
    return rand_bytes(g.rng, 500, 3000)


def group_arg(g, spec):
    gs = sorted(spec.get("coordinator", {}))
    if gs and g.rng.random() < 0.6:
        return g.rng.choice(gs)
    return g.string(0.2)


def api_op(g, spec, kind):
    rng = g.rng

    def topics_list():
        n = rng.choice([0, 1, 1, 2, 3, 5])
        if n == 0:
            g.mark("empty-list")
        xs = [topic_arg(g, spec) for _ in range(n)]
        if xs and rng.random() < 0.25:
            xs.append(rng.choice(xs))
        return xs

    if kind == "load_metadata":
        return T("load_metadata", [topics_list()])
    if kind == "load_metadata_all":
        return T("load_metadata_all")
    if kind == "fetch_offsets":
        return T("fetch_offsets", [topics_list(), g.time()])
    if kind == "list_offsets":
        return T("list_offsets", [topics_list(), g.time()])
    if kind == "fetch_topic_offsets":
        return T("fetch_topic_offsets", [topic_arg(g, spec), g.time()])
    if kind == "fetch_messages":
        n = rng.choice([0, 1, 2, 3, 5, 8])
        if n == 0:
            g.mark("empty-list")
        xs = []
        for _ in range(n):
            t = topic_arg(g, spec, 0.85)
            xs.append(fp(t, part_arg(g, spec, t), g.offset(), g.max_bytes()))
        if xs and rng.random() < 0.3:
            d = rng.choice(xs)
            xs.append(fp(d.args[0], d.args[1], g.offset(), g.max_bytes()))
        return T("fetch_messages", [xs])
    if kind == "produce_messages":
        n = rng.choice([0, 1, 2, 4, 6])
        if n == 0:
            g.mark("empty-list")
        routable = [(t, p) for t, ls in sorted(spec["topics"].items()) for p, l in enumerate(ls) if l >= 0]
        clean = rng.random() < 0.8 and routable
        xs = []
        for _ in range(n):
            if clean:
                t, p = rng.choice(routable)
            else:
                t = topic_arg(g, spec, 0.85)
                p = part_arg(g, spec, t)
            xs.append(pm(t, p, value_arg(g), value_arg(g)))
        acks = rng.choice([1, 1, -1, 0])
        # (the last three are far beyond the field but small modulo 2^64 ms: only a wrapping conversion lets them through)
        secs, nanos = rng.choice([(0, 0), (1, 500000000), (0, 999999), (30, 0), (2147483, 647000000), (2147483, 648000000),
                                  (18446744073709552, 0), (2305843009213693952, 7000000), (18446744073709551, 616000000)])
        if (secs, nanos) != (1, 500000000) and (secs, nanos) != (30, 0):
            g.mark("timeout")
        return T("produce_messages", [acks, secs, nanos, xs])
    if kind == "commit_offsets":
        n = rng.choice([0, 1, 2, 3, 6])
        if n == 0:
            g.mark("empty-list")
        xs = []
        for _ in range(n):
            t = topic_arg(g, spec, 0.92)
            xs.append(T("co", [t, part_arg(g, spec, t, 0.93), g.offset()]))
        if xs and rng.random() < 0.3:
            d = rng.choice(xs)
            xs.append(T("co", [d.args[0], d.args[1], g.offset()]))
        return T("commit_offsets", [group_arg(g, spec), xs])
    if kind == "fetch_group_offsets":
        n = rng.choice([0, 1, 2, 3, 6])
        if n == 0:
            g.mark("empty-list")
        xs = []
        for _ in range(n):
            t = topic_arg(g, spec, 0.92)
            xs.append(T("fgo", [t, part_arg(g, spec, t, 0.93)]))
        if xs and rng.random() < 0.3:
            xs.append(rng.choice(xs))
        return T("fetch_group_offsets", [group_arg(g, spec), xs])
    if kind == "fetch_group_topic_offset":
        return T("fetch_group_topic_offset", [group_arg(g, spec), topic_arg(g, spec, 0.85)])
    raise AssertionError(kind)


KINDS = ["load_metadata", "load_metadata_all", "fetch_offsets", "list_offsets", "fetch_topic_offsets", "fetch_messages",
         "produce_messages", "commit_offsets", "fetch_group_offsets", "fetch_group_topic_offset"]


def warm_up(spec):
    """connects the client to every leader. With an unrepresentable client id a multi-broker call fails while encoding for the
    first broker of its (hash map) iteration order; if that broker had no connection yet the only trace of the order is a
    connect event, which the correspondence check cannot feed to the model. The property does not depend on it."""
    return T("fetch_offsets", [sorted(spec["topics"]), T("latest")])


def setting_ops(g, spec):
    rng = g.rng
    k = rng.choice(["client_id", "client_id", "min_bytes", "max_wait", "max_bytes", "compression", "storage"])
    if k == "client_id":
        cid = g.string(0.2)
        return [warm_up(spec), T("set_client_id", [cid])] if len(cid) > I16MAX else [T("set_client_id", [cid])]
    return [setting_op(g, k)]


def setting_op(g, k):
    rng = g.rng
    if k == "min_bytes":
        g.mark("setting")
        return T("set_fetch_min_bytes", [rng.choice([-1, 0, 1, I32MAX, I32MIN, 65536])])
    if k == "max_wait":
        g.mark("setting")
        return T("set_fetch_max_wait_time", list(rng.choice([(0, 0), (0, 1000000), (7, 1999999), (2147483, 647999999),
                                                              (2147483, 648000000), (4000000, 0),
                                                              (18446744073709552, 0), (2305843009213693952, 7000000), (18446744073709551, 616000000)])))
    if k == "max_bytes":
        g.mark("setting")
        return T("set_fetch_max_bytes_per_partition", [rng.choice([-1, 0, 1, I32MAX, I32MIN, 1 << 20])])
    if k == "compression":
        return T("set_compression", [rng.choice([0, 1, 2])])
    return T("set_group_offset_storage", [rng.choice([0, 1, 1, 2])])


def finish(g, spec, ops, **extra):
    meta = {"family": g.family, "boundary": bool(g.bounds), "bounds": sorted(g.bounds)}
    meta.update(extra.pop("meta", {}))
    case = {"cluster": spec, "ops": ops, "meta": meta}
    case.update(extra)
    if g.family in ("random", "many") and "plan" not in case and g.rng.random() < 0.12:
        # a stream that takes only part of what it is offered: every request still has to arrive as one complete frame
        case["plan"] = {"write_chunk": g.rng.choice([1000, 4096])}
        meta["write_chunk"] = case["plan"]["write_chunk"]
    return case


def plain_cluster(g, nb=2):
    return {"brokers": brokers(nb), "topics": {b"t1": [1, nb, -1, 1], "té€".encode(): [nb, 1], b"solo": [1]}, "logs": {}}


def normal_op(g, spec, kind, topic=None, group=b"grp", cid=None):
    """a plain instance of every call over the given cluster, optionally aimed at one topic"""
    names = sorted(spec["topics"])
    t = topic if topic is not None else names[0]
    n = max(1, len(spec["topics"].get(t, [0])))
    others = [x for x in names if x != t][:1]
    if kind == "load_metadata":
        return T("load_metadata", [[t] + others])
    if kind == "load_metadata_all":
        return T("load_metadata_all")
    if kind == "fetch_offsets":
        return T("fetch_offsets", [[t] + others, T("latest")])
    if kind == "list_offsets":
        return T("list_offsets", [[t] + others, T("earliest")])
    if kind == "fetch_topic_offsets":
        return T("fetch_topic_offsets", [t, T("bytime", [12345])])
    if kind == "fetch_messages":
        return T("fetch_messages", [[fp(t, p, 0) for p in range(n)] + [fp(o, 0, 0, 999) for o in others]])
    if kind == "produce_messages":
        ls = spec["topics"].get(t, [])
        ps = [p for p, l in enumerate(ls) if l >= 0] or [0]
        return T("produce_messages", [1, 1, 0, [pm(t, ps[0], b"k", b"v"), pm(t, ps[-1], None, b"w")]])
    if kind == "commit_offsets":
        return T("commit_offsets", [group, [T("co", [t, p, 10 + p]) for p in range(n)]])
    if kind == "fetch_group_offsets":
        return T("fetch_group_offsets", [group, [T("fgo", [t, p]) for p in range(n)]])
    if kind == "fetch_group_topic_offset":
        return T("fetch_group_topic_offset", [group, t])
    raise AssertionError(kind)


def fam_strings(rng):
    cases = []
    # client id of every boundary length x every call; then a representable id again (the connection must be clean)
    for L in LENGTHS:
        for kind in KINDS:
            g = G(rng, "string-client-id")
            spec = plain_cluster(g, rng.choice([1, 2, 3]))
            ops = boot_ops(spec) + [T("set_group_offset_storage", [rng.choice([0, 1])]), warm_up(spec),
                                    T("set_client_id", [g.name_of_len(L, b"i")]),
                                    normal_op(g, spec, kind), T("set_client_id", [b"ok"]), normal_op(g, spec, kind)]
            cases.append(finish(g, spec, ops))
    # group of every boundary length x group calls x both storages
    for L in LENGTHS:
        for kind in GROUP_OPS:
            for storage in (0, 1):
                g = G(rng, "string-group")
                spec = plain_cluster(g, rng.choice([1, 2, 3]))
                grp = g.name_of_len(L, b"g")
                spec["coordinator"] = {grp: rng.choice(sorted(spec["brokers"]))}
                ops = boot_ops(spec) + [T("set_group_offset_storage", [storage]), T("set_client_id", [g.short()]),
                                        normal_op(g, spec, kind, group=grp), normal_op(g, spec, kind, group=grp),
                                        normal_op(g, spec, "fetch_group_topic_offset", group=b"other")]
                cases.append(finish(g, spec, ops))
    # topic argument of every boundary length x every call with a topic argument; the topic exists (if it can) or not
    for L in LENGTHS:
        for kind in KINDS:
            if kind == "load_metadata_all":
                continue
            for exists in ((True, False) if L <= I16MAX else (False,)):
                g = G(rng, "string-topic")
                spec = plain_cluster(g, rng.choice([1, 2, 3]))
                t = g.name_of_len(L, b"T")
                if exists:
                    spec["topics"][t] = [1, max(spec["brokers"]), 1]
                ops = boot_ops(spec) + [T("set_group_offset_storage", [rng.choice([0, 1])]),
                                        normal_op(g, spec, kind, topic=t), normal_op(g, spec, kind, topic=b"t1")]
                if kind == "load_metadata":
                    ops.append(T("fetch_offsets", [[t, b"t1"], T("latest")]))
                    ops.append(normal_op(g, spec, "fetch_group_topic_offset", topic=t))
                cases.append(finish(g, spec, ops))
    return cases


def fam_numbers(rng):
    cases = []
    for off in OFFSETS:
        for mb in MAXBYTES:
            g = G(rng, "numbers")
            g.mark("int64")
            g.mark("max_bytes")
            spec = plain_cluster(g, 2)
            ops = boot_ops(spec) + [T("set_group_offset_storage", [rng.choice([0, 1])]),
                                    T("set_fetch_max_bytes_per_partition", [rng.choice([-1, 0, 1, I32MAX, 4096])]),
                                    T("fetch_messages", [[fp(b"t1", 0, off, mb), fp(b"t1", 1, off, -1), fp(b"solo", 0, 5, mb),
                                                          fp(b"t1", 3, OFFSETS[(OFFSETS.index(off) + 1) % len(OFFSETS)], mb)]]),
                                    T("fetch_offsets", [[b"t1", b"solo"], T("bytime", [off])]),
                                    T("list_offsets", [[b"solo", b"t1"], T("bytime", [off])]),
                                    T("commit_offsets", [b"g", [T("co", [b"t1", 0, off]), T("co", [b"t1", 2, off]), T("co", [b"solo", 0, mb])]]),
                                    T("fetch_topic_offsets", [b"t1", T("bytime", [off])])]
            cases.append(finish(g, spec, ops))
    return cases


def fam_settings(rng):
    cases = []
    waits = [(0, 0), (0, 1000000), (0, 999999), (2147483, 647000000), (2147483, 648000000), (1 << 40, 0)]
    for mn in [-1, 0, 1, I32MAX, I32MIN]:
        for w in waits:
            g = G(rng, "settings")
            g.mark("setting")
            spec = plain_cluster(g, rng.choice([1, 2, 3]))
            mx = rng.choice([-1, 0, 1, I32MAX, I32MIN, 65536])
            ops = boot_ops(spec) + [T("set_fetch_min_bytes", [mn]), T("set_fetch_max_wait_time", list(w)),
                                    T("set_fetch_max_bytes_per_partition", [mx]), T("set_client_id", [g.short()]),
                                    T("fetch_messages", [[fp(b"t1", 0, 0), fp(b"t1", 1, 0, 0), fp(b"t1", 3, 0, 5), fp(b"solo", 0, 0, -2)]]),
                                    T("get_config")]
            cases.append(finish(g, spec, ops))
    for comp in (0, 1, 2):
        for acks in (1, -1, 0):
            for variant in range(2):
                g = G(rng, "settings")
                spec = plain_cluster(g, rng.choice([1, 2, 3]))
                msgs = [pm(b"t1", rng.choice([0, 1, 3]), value_arg(g), value_arg(g)) for _ in range(rng.randint(1, 6))]
                msgs += [pm(b"solo", 0, None, None), pm(b"solo", 0, b"", b"")]
                if variant:
                    msgs.append(pm(b"t1", 0, b"big", rand_bytes(rng, 70000, 70000, b"ab")))
                    g.mark("big-value")
                rng.shuffle(msgs)
                ops = boot_ops(spec) + [T("set_compression", [comp]), T("set_client_id", [g.string(0.0)]),
                                        T("produce_messages", [acks, rng.choice([0, 1, 2147483]), rng.choice([0, 647000000]), msgs]),
                                        T("produce_messages", [1, 0, 5000000, [pm(b"t1", 0, b"a", b"b")]])]
                cases.append(finish(g, spec, ops))
    for storage in (0, 1, 2):
        for kind in GROUP_OPS:
            g = G(rng, "settings")
            spec = plain_cluster(g, 3)
            spec["coordinator"] = {b"grp": rng.choice([1, 2, 3])}
            ops = boot_ops(spec) + [T("set_group_offset_storage", [storage]), normal_op(g, spec, kind), normal_op(g, spec, kind, topic=b"solo"),
                                    T("set_group_offset_storage", [1 - storage if storage < 2 else 0]), normal_op(g, spec, kind)]
            cases.append(finish(g, spec, ops))
    return cases


def fam_random(rng, n, many=False):
    cases = []
    for _ in range(n):
        g = G(rng, "many" if many else "random")
        spec = gen_cluster(g, many=many)
        if rng.random() < 0.5:
            spec["coordinator"] = {g.short(): rng.choice(sorted(spec["brokers"])) for _ in range(rng.randint(1, 2))}
        ops = boot_ops(spec, all_hosts=rng.random() < 0.7)
        if rng.random() < 0.12:
            # the client only knows a subset of the topics
            sub = [t for t in sorted(spec["topics"]) if rng.random() < 0.6]
            if sub:
                ops[1] = T("load_metadata", [sub])
        if rng.random() < 0.85:
            ops.append(T("set_group_offset_storage", [rng.choice([0, 1])]))
        for _ in range(rng.choice([0, 0, 1, 2, 3])):
            ops += setting_ops(g, spec)
        for _ in range(rng.randint(2, 5)):
            if many:
                kind = rng.choice(KINDS)
                t = rng.choice(sorted(spec["topics"]))
                if rng.random() < 0.6:
                    ops.append(normal_op(g, spec, kind, topic=t, group=group_arg(g, spec)))
                    continue
            ops.append(api_op(g, spec, rng.choice(KINDS)))
            if rng.random() < 0.15:
                ops += setting_ops(g, spec)
        cases.append(finish(g, spec, ops))
    return cases


def fam_wrap(rng):
    """the counter is reduced modulo 2^30: six fixed cases around the wrap, reachable through the hook only"""
    cases = []
    for start, kinds in [(WRAP - 3, ["fetch_offsets", "fetch_messages", "list_offsets", "produce_messages"]),
                         (WRAP - 2, ["commit_offsets", "fetch_group_topic_offset"]),
                         (WRAP - 3, ["commit_offsets", "fetch_group_offsets"]),
                         (WRAP - 2, ["load_metadata", "load_metadata_all", "fetch_topic_offsets"]),
                         (WRAP - 1, ["fetch_messages", "fetch_offsets"]),
                         (WRAP - 4, ["fetch_group_offsets", "commit_offsets", "produce_messages", "list_offsets"])]:
        g = G(rng, "wrap")
        g.mark("correlation-wrap")
        spec = plain_cluster(g, 2)
        ops = boot_ops(spec) + [T("set_group_offset_storage", [1]), T("set_correlation", [start])] + [normal_op(g, spec, k) for k in kinds]
        cases.append(finish(g, spec, ops))
    return cases


def fam_scripted(rng, n):
    """coordinator not available (retried with the same lookup) / not coordinator (new lookup, same commit)"""
    cases = []
    for i in range(n):
        g = G(rng, "scripted")
        spec = plain_cluster(g, rng.choice([2, 3]))
        grp = g.short()
        spec["coordinator"] = {grp: rng.choice(sorted(spec["brokers"]))}
        spec["coordinator_script"] = {grp: rng.choice([[15], [15, 15], [15, 15, 15], [15, "ok", 15], []])}
        kind = rng.choice(GROUP_OPS)
        if kind == "commit_offsets":
            spec["commit_script"] = rng.choice([[16], [16, 16], [14], [14, 16], [16, 16, 16], []])
        else:
            spec["group_fetch_script"] = rng.choice([[16], [16, 16], [14], [14, 16], [16, 16, 16], []])
        ops = boot_ops(spec) + [T("set_group_offset_storage", [rng.choice([0, 1])]), T("set_client_id", [g.short()]),
                                normal_op(g, spec, kind, group=grp), normal_op(g, spec, "fetch_offsets"),
                                normal_op(g, spec, rng.choice(GROUP_OPS), group=grp)]
        cases.append(finish(g, spec, ops, meta={"scripted": True}))
    return cases


def fam_bootstrap(rng, n):
    cases = []
    for i in range(n):
        g = G(rng, "bootstrap")
        spec = plain_cluster(g, 3)
        hs = [b"b1:9092", b"b2:9093", b"b3:9094"]
        rng.shuffle(hs)
        down = hs[:rng.choice([0, 1, 2, 3])]
        ops = [T("client_new", [hs]), T("set_client_id", [g.string(0.3)]), T("load_metadata_all"),
               T("load_metadata", [[b"t1", b"nope"]]), T("load_metadata", [[]])]
        cases.append(finish(g, spec, ops, unreachable=down))
    return cases


def fam_broker_leaves(rng, n):
    """three brokers; after the full load one of the first two is missing from the broker list of a later answer to a load BY NAME
    of a topic it does not lead (it left the cluster's listing, its partitions of the other topics were not asked about): what the
    client knows about the topics that were not reloaded still names their leaders, and every later request must go to them"""
    cases = []
    for i in range(n):
        g = G(rng, "broker-leaves")
        x = rng.choice([1, 2])
        rest = [b for b in (1, 2, 3) if b != x]
        spec = {"brokers": brokers(3), "logs": {},
                "topics": {b"ra": [rng.choice(rest) for _ in range(rng.randint(1, 3))],
                           b"tb": [x, 3, x, rest[0]][:rng.randint(2, 4)], b"tc": [3, x]}}
        body = {"brokers": [{"node_id": nid, "host": h, "port": p} for nid, (h, p) in sorted(spec["brokers"].items()) if nid != x],
                "topics": [{"error": 0, "topic": b"ra", "partitions": [{"error": 0, "id": k, "leader": l, "replicas": [], "isr": []}
                                                                       for k, l in enumerate(spec["topics"][b"ra"])]}]}
        ops = boot_ops(spec) + [warm_up(spec), {"op": T("load_metadata", [[b"ra"]]), "mutate": {"kind": "body", "api": "metadata", "body": body}}]
        kinds = ["fetch_offsets", "list_offsets", "fetch_messages", "produce_messages", "fetch_topic_offsets"]
        rng.shuffle(kinds)
        for k in kinds[:rng.randint(2, 4)]:
            ops.append(normal_op(g, spec, k, topic=rng.choice([b"tb", b"tc"])))
        cases.append(finish(g, spec, ops))
    return cases


def gen(rng, tier):
    quick = tier == "quick"
    cases = fam_strings(rng) + fam_numbers(rng) + fam_settings(rng)
    cases += fam_random(rng, 450 if quick else 12000)
    cases += fam_random(rng, 40 if quick else 600, many=True)
    cases += fam_scripted(rng, 24 if quick else 300)
    cases += fam_bootstrap(rng, 12 if quick else 100)
    cases += fam_broker_leaves(rng, 16 if quick else 150)
    cases += fam_wrap(rng)
    return cases
