"""Shared generator helpers for the property modules."""
import kproto
from val import T, some

HOSTS = {1: (b"b1", 9092), 2: (b"b2", 9093), 3: (b"b3", 9094)}


def host(n):
    h, p = HOSTS[n]
    return h + b":" + str(p).encode()


def brokers(n):
    return {i: HOSTS[i] for i in range(1, n + 1)}


def expected_code(code):
    """KafkaCode (as discriminant) the client must report for a wire error code"""
    if code == 0:
        return None
    return code if 1 <= code <= 35 else -1


# every declared code, the boundaries of the i8 / u8 / i16 ranges, and unmapped 16-bit codes whose LOW byte is a declared code
# (0x0101 = 257 -> low byte 1, 0x0103 -> 3, 0x010e -> 14, 0x010f -> 15, 0x0110 -> 16, 0x0123 -> 35, 0x7f01, and the negative
# ones -255 = 0xff01, -253 = 0xff03, -242 = 0xff0e, -240 = 0xff10): a check on the truncated byte would map them to declared kinds
ALL_CODES = list(range(-1, 36)) + [36, 127, 128, 255, 256, 32767, -2, -128, -129, -32768] + \
    [257, 259, 270, 271, 272, 291, 515, 32513, -255, -253, -242, -241, -240, -221]


def rand_bytes(rng, lo, hi, alphabet=None):
    n = rng.randint(lo, hi)
    if alphabet:
        return bytes(rng.choice(alphabet) for _ in range(n))
    return bytes(rng.getrandbits(8) for _ in range(n))


def rand_topic(rng):
    kind = rng.random()
    if kind < 0.7:
        return rand_bytes(rng, 1, 6, b"abcxyz-_.09")
    if kind < 0.85:
        return "té€".encode() + rand_bytes(rng, 0, 2, b"ab")
    return rand_bytes(rng, 1, 3, b"ab")


def rand_log(rng, start=0, nbatches=None, codecs=("plain", "plain", "gzip", "snappy"), gaps=True, maxval=20):
    """a partition log: list of kproto entries with increasing offsets"""
    off = start
    entries = []
    for _ in range(rng.randint(0, 4) if nbatches is None else nbatches):
        kind = rng.choice(codecs)
        n = rng.randint(1, 3)
        msgs = []
        for _ in range(n):
            if gaps and rng.random() < 0.2:
                off += rng.randint(1, 3)
            k = None if rng.random() < 0.4 else rand_bytes(rng, 0, 4)
            v = None if rng.random() < 0.1 else rand_bytes(rng, 0, maxval)
            msgs.append(("plain", off, k, v))
            off += 1
        if kind == "plain":
            entries.extend(msgs)
        else:
            entries.append(("wrap", kind, msgs[-1][1], msgs))
    return entries


def std_cluster(rng, ntopics=None, nbrokers=None, leaderless=0.1, logs=True, first_wrapper_only=True):
    nb = nbrokers or rng.randint(1, 3)
    topics, lg = {}, {}
    names = set()
    while len(names) < (ntopics or rng.randint(1, 3)):
        names.add(rand_topic(rng))
    for t in sorted(names):
        np_ = rng.randint(1, 4)
        topics[t] = [(-1 if rng.random() < leaderless else rng.randint(1, nb)) for _ in range(np_)]
        if logs:
            for p in range(np_):
                if rng.random() < 0.8:
                    lg[(t, p)] = known_safe_log(rng) if first_wrapper_only else rand_log(rng)
    return {"brokers": brokers(nb), "topics": topics, "logs": lg}


def known_safe_log(rng, start=None):
    """logs outside the known finding F13: every batch is served on its own or wrappers come first.
    We keep plain-only logs and wrapper-only logs (each fetch starts at a batch boundary the broker picks)."""
    start = rng.randint(0, 5) if start is None else start
    if rng.random() < 0.5:
        return rand_log(rng, start, codecs=("plain",))
    return rand_log(rng, start, codecs=(rng.choice(["gzip", "snappy"]),))


def boot_ops(cluster_spec, all_hosts=True):
    hs = [h + b":" + str(p).encode() for _, (h, p) in sorted(cluster_spec["brokers"].items())]
    return [T("client_new", [hs if all_hosts else hs[:1]]), T("load_metadata_all"), T("set_retry_max_attempts", [3])]


def fp(topic, p, off, maxb=-1):
    return T("fp", [topic, p, off, maxb])


def pm(topic, p, k, v):
    return T("pm", [topic, p, some(k), some(v)])


def parsed_requests(recs, api=None):
    out = []
    for r in recs:
        for h, payload in r["requests"]:
            try:
                rq = kproto.parse_request(payload)
            except kproto.ProtoError:
                continue
            if api is None or rq["api"] == api:
                out.append((h, rq))
    return out


def maybe_order(rng, spec, p=0.35):
    """with probability p the reference brokers list topics and partitions in their replies in reversed or shuffled order
    (the protocol carries names and ids in each entry and promises no order)"""
    if rng.random() < p:
        spec["order"] = rng.choice(["reversed", rng.randint(0, 10 ** 6)])
    return spec
