"""C02: fetch decoding yields a gap-free run of complete messages from the asked offset."""
import kproto
from val import T, dumps
from props import common
from props.common import boot_ops, brokers, fp, rand_bytes, rand_topic

SLICE = "fetch Response/Topic/Partition/MessageSet::from_slice decoding (plain, gzip, xerial snappy, nested) behind KafkaClient::fetch_messages"
RULE = ("message sets are built from generated entries with the independent encoder (kproto) and delivered as the broker's fetch reply "
        "(one reply = 1-3 topics x 1-3 partitions, each partition with its own layout, requested offset, high-watermark and truncation "
        "point); (a) a fixed list of 14 small layouts (plain, plain with an offset gap, gzip, snappy with 1..n xerial chunks incl. 1-byte "
        "chunks, two wrappers, wrapper+plain, wrapper+plain+wrapper, plain below the requested offset + wrapper, two depth-2 nestings, two "
        "layouts of the known class) is truncated at EVERY byte position 0..len, for 1-2 requested offsets each (thorough: every offset from "
        "first-1 to last+1); (b) random layouts: 1-6 batches of 1-4 messages over {plain, gzip, snappy} with offset gaps, offsets up to "
        "2^62, null/empty/binary keys and values (6% of the layouts hold 0.3-20 KiB values), snappy chunk sizes 1..4096 with and without copy elements, "
        "requested offset at a batch start, inside the first batch (inner offsets below it), in a gap, below the log or at its last message, "
        "empty sets; cut at a sampled position (entry boundaries +-1, inside the 12-byte entry header and the fixed fields, uniform) or not "
        "at all; in a third of the cases 40% of the layouts put a plain message at or above the requested offset in front of a complete "
        "wrapper (known class C02-wrapper-not-first, ~15% of all random layouts); (c) cases answered by the reference broker itself "
        "(serve_fetch + max_bytes, 1-3 brokers, plain or wrapper-only logs) instead of a scripted reply. non-trivial = a case with a fetch whose reply carried a complete message at or "
        "above the requested offset or a truncated tail")
ASSUMPTIONS = ["tools/kproto.py encodes message sets, gzip members and xerial-framed snappy as a conforming 0.8/0.9 broker stores them "
               "(inner offsets absolute, wrapper offset = last inner offset)"]
EXHAUSTIVE = False

KNOWN = "C02-wrapper-not-first:"
# Depth-2 nesting used to make the decoder return views into a buffer it had just freed (MessageSet::from_vec kept the outer vector
# and dropped the inner one the messages point into; witness corpus/known/C02-nested-freed-buffer.json, repaired in /repo by a
# `fix:` commit). Complete depth-2 descents are generated freely; set NESTED_DEPTH2 = False to deliver such layouts only cut inside
# their outer wrapper.
NESTED_DEPTH2 = True


# ---- layouts ---------------------------------------------------------------------------------------------

def top_last(e):
    return e[1] if e[0] == "plain" else e[2]


def encode_layout(entries, chunk=None, copies=False):
    """-> (bytes of the whole set, [encoded length of every top-level entry])"""
    parts = [kproto.encode_entries([e], chunk, copies) for e in entries]
    return b"".join(parts), [len(x) for x in parts]


def complete_entries(entries, lens, cut):
    """top-level entries wholly contained in the first `cut` bytes"""
    if cut is None:
        return list(entries), False
    out, pos = [], 0
    for e, n in zip(entries, lens):
        if pos + n <= cut:
            out.append(e)
            pos += n
        else:
            break
    return out, cut > pos


def qualifying(entries, req):
    return [(o, k or b"", v or b"") for (o, k, v) in kproto.flatten_entries(entries) if o >= req]


def known_defect_prediction(entries, req):
    """what finding F13 predicts: decoding restarts inside the first complete wrapper of a (sub)set, dropping the plain messages
    collected before it and ignoring everything after it. Used ONLY to name the class of an already established violation."""
    for e in entries:
        if e[0] == "wrap":
            return known_defect_prediction(e[3], req)
    return qualifying(entries, req)


def descends_two_levels(entries):
    """does decoding of this set enter a wrapper inside a wrapper (depth-2 nesting; formerly the freed-buffer finding)"""
    for e in entries:
        if e[0] == "wrap":
            return has_wrapper(e[3])
    return False


def violation(ex, complete, req):
    """first clause of the property statement that the exposed list `ex` breaks, or None"""
    q = qualifying(complete, req)
    if any(o < req for (o, _, _) in ex):
        return "a message below the requested offset is exposed (%s)" % [o for (o, _, _) in ex if o < req][:3]
    stored = set(q)
    for x in ex:
        if x not in stored:
            return "exposed message offset %d key %s value %s is not a complete stored message" % (x[0], x[1][:8].hex(), x[2][:8].hex())
    if [x[0] for x in ex] != sorted(set(x[0] for x in ex)):
        return "offsets not in log order: %s" % [x[0] for x in ex][:6]
    if ex != q[:len(ex)]:
        return "not a gap-free prefix: exposed offsets %s, complete messages at or above %d are %s" % (
            [x[0] for x in ex][:6], req, [x[0] for x in q][:6])
    if not has_wrapper(complete) and ex != q:
        return "uncompressed set: %d of %d complete messages exposed" % (len(ex), len(q))
    if not ex:
        # the batch a broker starts the reply with: the first one that reaches the requested offset
        first = [e for e in complete if top_last(e) >= req][:1]
        if qualifying(first, req):
            return "nothing exposed although the first complete batch reaching the requested offset holds offset %d >= %d" % (
                qualifying(first, req)[0][0], req)
    return None


def has_wrapper(entries):
    return any(e[0] == "wrap" for e in entries)


def depth(entries):
    return max([0] + [1 + depth(e[3]) for e in entries if e[0] == "wrap"])


def in_known_class(entries, req):
    """layout class of F13: in the set or in a sub-set the decoder descends into, a complete wrapper is preceded by a plain message
    at or above the requested offset (it is dropped), or followed by further entries (they are ignored)"""
    for i, e in enumerate(entries):
        if e[0] == "wrap":
            before = any(x[0] == "plain" and x[1] >= req for x in entries[:i])
            return before or i + 1 < len(entries) or in_known_class(e[3], req)
    return False


# ---- generator -------------------------------------------------------------------------------------------

def rand_kv(rng, big=False):
    k = None if rng.random() < 0.35 else rand_bytes(rng, 0, 5)
    r = rng.random()
    if r < 0.1:
        v = None
    elif r < 0.2:
        v = b""
    elif big and r < 0.3:
        v = rand_bytes(rng, 300, 1500) if rng.random() < 0.7 else bytes(rng.getrandbits(8) for _ in range(rng.randint(4000, 20480)))
    elif r < 0.5:
        v = rand_bytes(rng, 1, 6, b"ab")
    else:
        v = rand_bytes(rng, 1, 24)
    return k, v


class Offs:
    def __init__(self, rng, start):
        self.rng, self.next = rng, start

    def take(self):
        if self.rng.random() < 0.15:
            self.next += self.rng.randint(1, 4)
        o = self.next
        self.next += 1
        return o


def plain_run(rng, offs, n, big=False):
    out = []
    for _ in range(n):
        k, v = rand_kv(rng, big)
        out.append(("plain", offs.take(), k, v))
    return out


def wrapper(rng, offs, n=None, codec=None, big=False):
    inner = plain_run(rng, offs, n or rng.randint(1, 4), big)
    return ("wrap", codec or rng.choice(["gzip", "snappy"]), inner[-1][1], inner)


KINDS = [("plain", 22), ("wrappers", 28), ("wrap_then_any", 12), ("below_then_wrap", 8), ("nested", 12), ("known", 15), ("empty", 3)]


def rand_layout(rng, kind=None, big=False, known_ok=True):
    """-> (kind, entries, requested offset)"""
    if kind is None:
        kinds = [(k, (w * 4 if k == "known" else w)) for k, w in KINDS if known_ok or k != "known"]
        r = rng.random() * sum(w for _, w in kinds)
        for kind, w in kinds:
            r -= w
            if r < 0:
                break
    start = rng.choice([0, 0, 1, rng.randint(2, 1000), (1 << 40) + rng.randint(0, 9), (1 << 62)])
    offs = Offs(rng, start)
    entries = []
    req = None
    if kind == "empty":
        return kind, [], start
    if kind == "plain":
        entries = plain_run(rng, offs, rng.randint(1, 6), big)
    elif kind == "wrappers":
        entries = [wrapper(rng, offs, big=big) for _ in range(rng.randint(1, 3))]
    elif kind == "wrap_then_any":
        entries = [wrapper(rng, offs, big=big)]
        for _ in range(rng.randint(1, 3)):
            entries += plain_run(rng, offs, rng.randint(1, 2)) if rng.random() < 0.6 else [wrapper(rng, offs)]
    elif kind == "below_then_wrap":
        entries = plain_run(rng, offs, rng.randint(1, 3))
        req = offs.next + rng.choice([0, 0, 1])        # at the first inner message or just after it
        entries += [wrapper(rng, offs, n=rng.randint(2, 4))]
        if rng.random() < 0.3:
            entries += [wrapper(rng, offs)]
    elif kind == "nested":
        inner = [wrapper(rng, offs)]
        if rng.random() < 0.4:
            inner += plain_run(rng, offs, rng.randint(1, 2))
        entries = [("wrap", rng.choice(["gzip", "snappy"]), offs.next - 1, inner)]
        if rng.random() < 0.3:
            entries += [wrapper(rng, offs)] if rng.random() < 0.5 else plain_run(rng, offs, 1)
    elif kind == "known":
        v = rng.random()
        if v < 0.6:
            entries = plain_run(rng, offs, rng.randint(1, 3)) + [wrapper(rng, offs)]
            if rng.random() < 0.4:
                entries += plain_run(rng, offs, 1) if rng.random() < 0.5 else [wrapper(rng, offs)]
        elif v < 0.8:
            entries = plain_run(rng, offs, 1) + [wrapper(rng, offs), wrapper(rng, offs)]
        else:
            inner = plain_run(rng, offs, rng.randint(1, 2)) + [wrapper(rng, offs)]
            entries = [("wrap", rng.choice(["gzip", "snappy"]), offs.next - 1, inner)]
    if req is None:
        flat = kproto.flatten_entries(entries)
        first_last = top_last(entries[0])
        in_first = [o for (o, _, _) in flat if o <= first_last]
        r = rng.random()
        if r < 0.45:
            req = flat[0][0]                              # batch start
        elif r < 0.80:
            req = rng.choice(in_first)                    # inside the first batch: inner offsets below the request
        elif r < 0.88:
            req = max(0, flat[0][0] - rng.randint(1, 3))  # below the first stored offset
        elif r < 0.94 and first_last > flat[0][0]:
            req = rng.randint(flat[0][0], first_last)     # possibly in an offset gap
        else:
            req = in_first[-1]                            # last message of the first batch
    return kind, entries, req


def huge_snappy_job(rng, codec="snappy"):
    """one snappy batch of 39..43 KiB of incompressible values, framed as a single xerial chunk or in blocks above 32 KiB
    (32 KiB is only the default block size of the usual writer; the format allows any)"""
    offs = Offs(rng, rng.choice([0, 7, 1 << 33]))
    inner = [("plain", offs.take(), None if rng.random() < 0.5 else b"k%d" % i, bytes(rng.getrandbits(8) for _ in range(rng.randint(13200, 14500))))
             for i in range(3)]
    entries = [("wrap", codec, inner[-1][1], inner)]
    req = rng.choice([inner[0][1], inner[1][1], inner[-1][1], inner[-1][1]])
    chunk = rng.choice([None, None, 39000, 49152]) if codec == "snappy" else None
    data, lens = encode_layout(entries, chunk, False)
    return ("huge_" + codec, entries, req, len(data), chunk, False)


def sample_cut(rng, lens):
    total = sum(lens)
    if total == 0 or rng.random() < 0.4:
        return None
    bounds, pos = [0], 0
    for n in lens:
        pos += n
        bounds.append(pos)
    r = rng.random()
    if r < 0.35:
        c = rng.choice(bounds) + rng.choice([-1, 0, 1])
    elif r < 0.6:
        c = rng.choice(bounds[:-1]) + rng.choice([1, 4, 7, 8, 9, 11, 12, 13, 16, 17, 18, 21, 22, 25, 26])
    else:
        c = rng.randint(0, total)
    return min(max(c, 0), total)


def part_meta(topic, p, kind, entries, req, cut, chunk, copies, hw, via="body"):
    data, lens = encode_layout(entries, chunk, copies)
    if cut is not None and cut >= len(data):
        cut = None
    return {"topic": topic, "partition": p, "kind": kind, "entries": entries, "req": req, "cut": cut, "lens": lens,
            "hw": hw, "via": via}, (data if cut is None else data[:cut])


def fetch_item(parts, rng=None):
    """parts: [(meta, bytes)] of one scripted reply -> op item"""
    order = []
    for m, _ in parts:
        if m["topic"] not in order:
            order.append(m["topic"])
    body = {"topics": [{"topic": t, "partitions": [{"partition": m["partition"], "error": 0, "highwatermark": m["hw"], "message_set": d}
                                                   for m, d in parts if m["topic"] == t]} for t in order]}
    fps = [fp(m["topic"], m["partition"], m["req"]) for m, _ in parts]
    if rng is not None:
        rng.shuffle(fps)
    return {"op": T("fetch_messages", [fps]), "mutate": {"kind": "body", "api": "fetch", "body": body}}


def job_descends(job):
    kind, entries, req, cut, chunk, copies = job
    if depth(entries) < 2:
        return False
    data, lens = encode_layout(entries, chunk, copies)
    return descends_two_levels(complete_entries(entries, lens, cut)[0])


def admit(rng, job):
    """-> the job, a replacement that is cut inside the outer wrapper, or None"""
    if NESTED_DEPTH2 or not job_descends(job):
        return job
    kind, entries, req, cut, chunk, copies = job
    data, lens = encode_layout(entries, chunk, copies)
    pos = 0
    for e, n in zip(entries, lens):
        if e[0] == "wrap":
            if kind.startswith("small:"):
                return None
            return (kind, entries, req, pos + rng.randint(0, n - 1), chunk, copies)
        pos += n
    return None


def scripted_case(rng, jobs, per_fetch=None):
    """jobs: list of (kind, entries, req, cut, chunk, copies); packed into fetches over a 3x3 single-broker cluster"""
    names = [b"t0", b"t1", b"t2"]
    spec = {"brokers": brokers(1), "topics": {t: [1, 1, 1] for t in names}, "logs": {}}
    ops = boot_ops(spec)
    fetches = []
    slots = [(t, p) for t in names for p in range(3)]
    i = 0
    while i < len(jobs):
        n = min(per_fetch or rng.choice([1, 1, 2, 3, 4, 6, 9]), len(jobs) - i)
        use = rng.sample(slots, n)
        if rng.random() < 0.8:
            use[:-1] = sorted(use[:-1])
        parts = []
        for (t, p), (kind, entries, req, cut, chunk, copies) in zip(use, jobs[i:i + n]):
            flat = kproto.flatten_entries(entries)
            hw = rng.choice([(flat[-1][0] + 1) if flat else req, (flat[-1][0] + 1 + rng.randint(0, 1000)) if flat else req + 5])
            parts.append(part_meta(t, p, kind, entries, req, cut, chunk, copies, hw))
        # keep the partitions of a topic together in the reply, as a broker does; the last job stays last
        order = []
        for (t, _) in use:
            if t not in order:
                order.append(t)
        order.remove(use[-1][0])
        order.append(use[-1][0])
        parts.sort(key=lambda md: order.index(md[0]["topic"]))
        ops.append(fetch_item(parts, rng))
        fetches.append([m for m, _ in parts])
        i += n
    return {"cluster": spec, "ops": ops, "meta": {"nboot": 3, "fetches": fetches}}


def E(o, k, v):
    return ("plain", o, k, v)


def small_layouts():
    """(name, entries, chunk, requested offsets) - every one is cut at every byte position"""
    a, b, c, d = E(5, None, b"a"), E(6, b"k", b"bb"), E(7, b"", None), E(9, b"\x00\xff", b"")
    return [
        ("plain2", [a, b], None, [5, 6]),
        ("plain3gap", [a, c, d], None, [5, 8]),
        ("gzip2", [("wrap", "gzip", 6, [a, b])], None, [5, 6]),
        ("snappy2", [("wrap", "snappy", 6, [a, b])], None, [5, 6]),
        ("snappy3-chunks", [("wrap", "snappy", 7, [a, b, c])], 20, [5, 7]),
        ("snappy-1byte-chunks", [("wrap", "snappy", 5, [a])], 1, [5]),
        ("gzip+snappy", [("wrap", "gzip", 6, [a, b]), ("wrap", "snappy", 9, [c, d])], None, [5, 6]),
        ("snappy+plain", [("wrap", "snappy", 6, [a, b]), c], None, [5, 6]),
        ("gzip+plain+gzip", [("wrap", "gzip", 5, [a]), b, ("wrap", "gzip", 7, [c])], None, [5]),
        ("below+gzip", [a, ("wrap", "gzip", 7, [b, c])], None, [6, 7]),
        ("nested-gzip-snappy", [("wrap", "gzip", 6, [("wrap", "snappy", 6, [a, b])])], None, [5, 6]),
        ("nested-snappy-gzip+plain", [("wrap", "snappy", 7, [("wrap", "gzip", 6, [a, b]), c])], 16, [5, 7]),
        ("known:plain+gzip", [a, ("wrap", "gzip", 7, [b, c])], None, [5]),
        ("known:plain+plain+snappy+plain", [a, b, ("wrap", "snappy", 7, [c]), d], None, [5, 6]),
    ]


def served_case(rng):
    """replies produced by the reference broker itself (serve_fetch, max_bytes), several brokers"""
    nb = rng.randint(1, 3)
    names = set()
    want = rng.randint(1, 3)
    while len(names) < want:
        names.add(rand_topic(rng))
    topics, logs = {}, {}
    for t in sorted(names):
        topics[t] = [rng.randint(1, nb) for _ in range(rng.randint(1, 3))]
        for p in range(len(topics[t])):
            log = []
            offs = Offs(rng, rng.choice([0, 0, 3, 100]))
            codec = rng.choice(["plain", "gzip", "snappy", "mixed-wrappers"])
            for _ in range(rng.randint(0, 4)):
                if codec == "plain":
                    log += plain_run(rng, offs, rng.randint(1, 3))
                else:
                    log.append(wrapper(rng, offs, codec=None if codec == "mixed-wrappers" else codec))
            logs[(t, p)] = log
    spec = {"brokers": brokers(nb), "topics": topics, "logs": logs}
    common.maybe_order(rng, spec)
    ops = boot_ops(spec)
    fetches = []
    for _ in range(rng.randint(3, 8)):
        metas, fps = [], []
        slots = [(t, p) for t in topics for p in range(len(topics[t]))]
        for (t, p) in rng.sample(slots, rng.randint(1, len(slots))):
            log = logs[(t, p)]
            flat = kproto.flatten_entries(log)
            if not flat:
                req = 0
            else:
                req = rng.choice([o for (o, _, _) in flat] + [flat[-1][0] + 1])
            served = [e for e in log if top_last(e) >= req]          # the batch containing req and everything after it
            data, lens = encode_layout(served)
            maxb = -1 if rng.random() < 0.4 else max(1, sample_cut(rng, lens) or len(data) + rng.randint(0, 50))
            cut = None if maxb == -1 or maxb >= len(data) else maxb
            metas.append({"topic": t, "partition": p, "kind": "served-" + ("plain" if not has_wrapper(served) else "wrappers"),
                          "entries": served, "req": req, "cut": cut, "lens": lens, "hw": (flat[-1][0] + 1) if flat else 0,
                          "via": "serve"})
            fps.append(fp(t, p, req, maxb))
        ops.append(T("fetch_messages", [fps]))
        fetches.append(metas)
    return {"cluster": spec, "ops": ops, "meta": {"nboot": 3, "fetches": fetches}}


def gen(rng, tier):
    quick = tier == "quick"
    cases = []
    # (a) every byte position of the small layouts
    jobs = []
    for name, entries, chunk, reqs in small_layouts():
        data, lens = encode_layout(entries, chunk)
        if not quick:
            offs = [o for (o, _, _) in kproto.flatten_entries(entries)]
            reqs = list(range(max(0, offs[0] - 1), offs[-1] + 2))       # every offset from just below the first to just above the last
        for req in reqs:
            for cut in range(len(data) + 1):
                job = admit(rng, ("small:" + name, entries, req, cut, chunk, False))
                if job:
                    jobs.append(job)
    for i in range(0, len(jobs), 108):
        cases.append(scripted_case(rng, jobs[i:i + 108], per_fetch=9))
    # (b) random layouts
    for ci in range(1100 if quick else 9000):
        jobs = []
        known_ok = rng.random() < 0.35         # layouts of the known class are concentrated in a third of the cases
        for _ in range(rng.randint(10, 40)):
            big = rng.random() < 0.06
            kind, entries, req = rand_layout(rng, big=big, known_ok=known_ok)
            chunk = None if rng.random() < 0.5 else rng.choice([1, 2, 7, 16, 31, 64, 200]) if not big else rng.choice([64, 500, 4096])
            copies = rng.random() < 0.4
            data, lens = encode_layout(entries, chunk, copies)
            jobs.append(admit(rng, (kind, entries, req, sample_cut(rng, lens), chunk, copies)))
        if ci % 7 == 5 and ci < (7 * 3 if quick else 7 * 24):     # (stride 7: spread over the 16 workers)     # (the model's snappy decoder is slow on chunks of this size: a handful per run)
            jobs.insert(rng.randint(0, len(jobs)), huge_snappy_job(rng))
        if ci % 7 == 2 and ci < (7 * 4 if quick else 7 * 40):
            # the same for gzip: more than 32 KiB of COMPRESSED input (a decompressor's internal buffer size), read from any offset
            jobs.insert(rng.randint(0, len(jobs)), huge_snappy_job(rng, "gzip"))
        cases.append(scripted_case(rng, jobs))
    # (c) the reference broker's own replies
    for _ in range(200 if quick else 1500):
        cases.append(served_case(rng))
    return cases


# ---- oracle ----------------------------------------------------------------------------------------------

def exposed(res):
    """{(topic, partition): [('ok', hw, [(offset, key, value)]) | ('err', e)]} from a fetch_messages result"""
    out = {}
    for r in res.args[0]:
        for tt in r.args[1]:
            for p in tt.args[1]:
                d = p.args[1]
                if d.name == "ok":
                    v = ("ok", d.args[0], [(m.args[0], m.args[1], m.args[2]) for m in d.args[1]])
                else:
                    v = ("err", dumps(d.args[0]))
                out.setdefault((tt.args[0], p.args[0]), []).append(v)
    return out


def check_partition(m, got, fails):
    where = "%s req=%d cut=%s" % (m["kind"], m["req"], m["cut"])
    entries, req = m["entries"], m["req"]
    complete, partial_tail = complete_entries(entries, m["lens"], m["cut"])
    if got[0] != "ok":
        fails.append("C02: %s: partition reported as failed (%s); the reply carries no error code" % (where, got[1]))
        return
    _, hw, ex = got
    if hw != m["hw"]:
        fails.append("C02: %s: high-watermark %d exposed, %d sent" % (where, hw, m["hw"]))
    bad = violation(ex, complete, req)
    if bad:
        known = in_known_class(complete, req) and ex == known_defect_prediction(complete, req)
        fails.append("%s %s: %s" % (KNOWN if known else "C02:", where, bad))


def oracle(case, recs, cl):
    meta = case["meta"]
    fails = []
    for fi, metas in enumerate(meta["fetches"]):
        i = meta["nboot"] + fi
        if i >= len(recs):
            fails.append("C02: case stopped before fetch %d: %s" % (fi, dumps(recs[-1]["impl"])[:100]))
            break
        rec = recs[i]
        res = rec["impl"]
        if res.name != "ok":
            kinds = sorted(set(m["kind"] for m in metas))
            fails.append("C02: fetch %d failed with %s (layouts %s, cuts %s)" % (fi, dumps(res)[:80], kinds[:4], [m["cut"] for m in metas][:9]))
            continue
        # what was sent must be what the generator intended (guards the oracle's own inputs)
        sent = {}
        for rep in rec["replies"]:
            if rep is None:
                continue
            try:
                _, body = kproto.parse_response("fetch", 0, rep)
            except kproto.ProtoError:
                continue
            for t in body["topics"] or []:
                for p in t["partitions"] or []:
                    sent[(t["topic"], p["partition"])] = p
        got = exposed(res)
        for m in metas:
            key = (m["topic"], m["partition"])
            s = sent.get(key)
            total = sum(m["lens"])
            want_len = total if m["cut"] is None else m["cut"]
            if s is None or s["error"] != 0 or len(s["message_set"] or b"") != want_len or s["highwatermark"] != m["hw"]:
                fails.append("C02: checker: reply for %r:%d is not the generated one" % key)
                continue
            g = got.get(key, [])
            if len(g) != 1:
                fails.append("C02: %s: partition %r:%d appears %d times in the result" % (m["kind"], key[0], key[1], len(g)))
                continue
            check_partition(m, g[0], fails)
        extra = [k for k in got if k not in set((m["topic"], m["partition"]) for m in metas)]
        if extra:
            fails.append("C02: result names partitions that were not in the reply: %s" % extra[:3])
    # report each class once, the unknown ones first
    fails.sort(key=lambda f: f.startswith(KNOWN))
    out, seen = [], False
    for f in fails:                      # one line for the known class, every other failure in full
        if f.startswith(KNOWN):
            if seen:
                continue
            seen = True
        out.append(f)
    fails = out
    return fails[:8]


def _interesting(m):
    complete, partial = complete_entries(m["entries"], m["lens"], m["cut"])
    return partial or bool(qualifying(complete, m["req"]))


def nontrivial(case, recs):
    meta = case["meta"]
    return len(recs) == len(case["ops"]) and any(_interesting(m) for metas in meta["fetches"] for m in metas)


def stats(case, recs):
    s = {}

    def bump(k, n=1):
        s[k] = s.get(k, 0) + n
    for metas in case["meta"]["fetches"]:
        bump("fetches")
        bump("partitions_per_reply:%d" % len(metas))
        bump("topics_per_reply:%d" % len(set(m["topic"] for m in metas)))
        for m in metas:
            bump("partition_sets")
            kind = m["kind"].split(":")[0] if m["kind"].startswith("small:") else m["kind"]
            bump("layout:" + kind)
            bump("via:" + m["via"])
            complete, partial = complete_entries(m["entries"], m["lens"], m["cut"])
            bump("cut:" + ("none" if m["cut"] is None else "partial-tail" if partial else "at-boundary"))
            if in_known_class(complete, m["req"]) and violation(known_defect_prediction(complete, m["req"]), complete, m["req"]):
                bump("known_class_violating_layouts")
            if descends_two_levels(complete):
                bump("complete_depth2_descents")
            bump("depth:%d" % depth(m["entries"]))
            flat = kproto.flatten_entries(complete)
            if any(o < m["req"] for (o, _, _) in flat):
                bump("sets_with_offsets_below_request")
            if not qualifying(complete, m["req"]):
                bump("sets_without_qualifying_message")
    return s
