"""C18: fetched message bytes stay valid and unchanged for the life of the response."""
import kproto
from val import T, dumps
from props.common import boot_ops, brokers, fp, pm, rand_bytes

SLICE = "Responses.from_slice / Ownership.view_level (values of the exposed views) and the harness's handling of live results"
RULE = ("fetch results (client fetch_messages and consumer poll) over plain / gzip / snappy / nested logs with many partitions are kept "
        "alive while the harness moves them (Box, Vec, another thread), issues further client calls, churns the allocator and finally "
        "drops them; after every step the topic names, keys and values are re-read and must equal the first reading and the log content. "
        "a second family repeats one fetch nine times - the result released, or the reply refused by the decoder (flipped payload bit under "
        "CRC validation, unknown codec) - and reads the bytes held by the process after every round: from the third round on they must "
        "not add up. non-trivial = a case with a compressed batch and at least one move plus churn between readings, or a release family run to its end")
ASSUMPTIONS = ["a dangling view is only observable once the freed memory has been reused: the allocator churn makes that likely, not certain",
               "address-level memory safety (no access to freed memory at all) is not decided by this check; see DESIGN.md section 7"]

T1 = b"t1"


def make_case(rng, nested=False, consumer=False, midplain=False, large=False, siblings=False):
    # large: one broker leads 3..5 partitions with ~20..30 KiB each, so that the fetch reply exceeds 64 KiB (the client then reads it
    # in several steps into a buffer that grows, and anything done to that buffer after parsing shows)
    nparts = rng.randint(1, 4) if not large else rng.randint(3, 5)
    logs = {}
    for p in range(nparts):
        off = rng.randint(0, 3)
        kind = rng.choice(["plain", "gzip", "snappy"])
        msgs = []
        for _ in range((rng.randint(2, 4) if siblings else rng.randint(1, 4)) if not large else rng.randint(3, 4)):
            val = rand_bytes(rng, 0, 200) if not large else bytes(rng.getrandbits(8) for _ in range(rng.randint(5000, 7400)))
            msgs.append(("plain", off, None if rng.random() < 0.3 else rand_bytes(rng, 0, 6), val))
            off += 1
        if nested and p == 0:
            if midplain and len(msgs) >= 2:
                # the middle layer starts with a plain message, followed by a wrapper (the client drops that plain message: known
                # finding F13 - here only the STABILITY of what is exposed is judged)
                inner = ("wrap", rng.choice(["gzip", "snappy"]), msgs[-1][1], msgs[1:])
                logs[(T1, p)] = [("wrap", rng.choice(["gzip", "snappy"]), msgs[-1][1], [msgs[0], inner])]
            else:
                inner = ("wrap", rng.choice(["gzip", "snappy"]), msgs[-1][1], msgs)
                logs[(T1, p)] = [("wrap", rng.choice(["gzip", "snappy"]), msgs[-1][1], [inner])]
        elif siblings and p == 0 and len(msgs) >= 2:
            # two compressed batches side by side in one partition's set (the consumer is two produced batches behind); the client
            # exposes the first only (C02's known class) - here only the STABILITY of what is exposed is judged
            cut_ = rng.randint(1, len(msgs) - 1)
            logs[(T1, p)] = [("wrap", rng.choice(["gzip", "snappy"]), msgs[cut_ - 1][1], msgs[:cut_]),
                             ("wrap", rng.choice(["gzip", "snappy"]), msgs[-1][1], msgs[cut_:])]
        elif kind == "plain":
            logs[(T1, p)] = msgs
        else:
            logs[(T1, p)] = [("wrap", kind, msgs[-1][1], msgs)]
    spec = {"brokers": brokers(2), "topics": {T1: [(rng.randint(1, 2) if not large else 1) for _ in range(nparts)], b"t2": [1]},
            "logs": logs, "order": rng.choice([None, "reversed"])}
    two_topics = consumer and not large and rng.random() < 0.5
    if two_topics:
        # a second assigned topic, led by brokers that also lead partitions of the first: one reply then carries sets of two topics
        spec["topics"][b"t2"] = [rng.randint(1, 2) for _ in range(rng.randint(1, 2))]
        for p in range(len(spec["topics"][b"t2"])):
            logs[(b"t2", p)] = [("plain", o, None if o % 2 else b"k2", b"second-topic-%d-%d" % (p, o)) for o in range(rng.randint(1, 3))]
    ops = boot_ops(spec)
    if consumer:
        topics_ = [T("with_topic", [T1])] + ([T("with_topic", [b"t2"])] if two_topics else [])
        rng.shuffle(topics_)
        ops += [T("consumer_build", [T("from_client"), topics_ + [T("with_fallback_offset", [T("earliest")])]]), T("poll")]
        reread = T("reread_poll")
    else:
        ops.append(T("fetch_messages", [[fp(T1, p, kproto.flatten_entries(logs[(T1, p)])[0][0]) for p in range(nparts)]]))
        reread = T("reread_fetch")
    first = len(ops) - 1
    for _ in range(rng.randint(2, 5)):
        k = rng.random()
        if k < 0.35:
            ops.append(T("move_results", [rng.randint(0, 2)]))
        elif k < 0.7:
            ops.append(T("churn", [rng.choice([50, 400, 2000])]))
        elif consumer:
            ops.append(T("consumer_op", [T("subscriptions")]))
        else:
            ops.append(rng.choice([T("fetch_offsets", [[T1], T("latest")]), T("load_metadata", [[T1]]),
                                   T("produce_messages", [1, 1, 0, [pm(b"t2", 0, None, rand_bytes(rng, 1, 50))]])]))
        ops.append(reread)
    ops += [T("churn", [300]), reread, T("drop_results"), T("churn", [50])]
    return {"cluster": spec, "ops": ops, "meta": {"first": first, "nested": nested, "consumer": consumer, "midplain": midplain, "large": large, "two_topics": two_topics, "siblings": siblings}}


ROUNDS = 9


def make_release_case(rng, consumer, rejected):
    """the same fetch ROUNDS times over, each result released (or each reply refused by the decoder: a flipped payload bit under CRC
    validation, an unknown codec), the bytes held by the process read after every round: what a round leaves behind must not add up"""
    nparts = rng.randint(1, 3)
    logs = {}
    for p in range(nparts):
        msgs = [("plain", o, None if o % 2 else b"k", bytes(rng.getrandbits(8) for _ in range(rng.randint(6000, 9000)))) for o in range(3)]
        kind = rng.choice(["plain", "gzip", "snappy"])
        logs[(T1, p)] = msgs if kind == "plain" else [("wrap", kind, 2, msgs)]
    spec = {"brokers": brokers(1), "topics": {T1: [1] * nparts, b"t2": [1]}, "logs": logs}
    ops = boot_ops(spec)
    if consumer:
        ops += [T("consumer_build", [T("from_client"), [T("with_topic", [T1]), T("with_fallback_offset", [T("earliest")])]])]
        call = T("poll")
    else:
        call = T("fetch_messages", [[fp(T1, p, 0) for p in range(nparts)]])
    first = len(ops)
    how = rng.choice(["flip", "codec"]) if rejected else None
    for _ in range(ROUNDS):
        if how == "flip":
            # a bit of the first partition's message set, well inside its first value
            ops.append({"op": call, "mutate": {"kind": "flip", "bit": 8 * rng.randint(120, 2000) + rng.randint(0, 7), "api": "fetch"}})
        elif how == "codec":
            body = {"topics": [{"topic": T1, "partitions": [{"partition": p, "error": 0, "highwatermark": 3,
                                                             "message_set": (kproto.encode_message(0, None, b"lz4?", attr=3) if p == nparts - 1 else b"") +
                                                             kproto.encode_entries(logs[(T1, p)])}
                                                            for p in range(nparts)]}]}
            ops.append({"op": call, "mutate": {"kind": "body", "body": body, "api": "fetch"}})
        else:
            ops.append(call)
            if consumer:
                # (the same messages are fetched again next time: nothing is marked consumed)
                pass
        ops += [T("drop_results"), T("live_bytes")]
    size = sum(len(kproto.encode_entries(l)) for l in logs.values())
    return {"cluster": spec, "ops": ops, "meta": {"first": first, "release": True, "rejected": how, "consumer": consumer, "reply_bytes": size,
                                                  "nested": False, "large": False}}


def gen(rng, tier):
    n = 150 if tier == "quick" else 2500
    cases = []
    for i in range(n):
        cases.append(make_case(rng, nested=(i % 4 == 0), consumer=(i % 3 == 0), midplain=(i % 8 == 0)))
    for i in range(16 if tier == "quick" else 300):
        cases.append(make_case(rng, nested=(i % 5 == 0), consumer=(i % 2 == 0), large=True))
    for i in range(16 if tier == "quick" else 300):
        cases.append(make_case(rng, consumer=(i % 2 == 0), siblings=True))
    for i in range(12 if tier == "quick" else 48):
        cases.append(make_release_case(rng, consumer=(i % 2 == 0), rejected=(i % 3 != 0)))
    return cases


def _messages(v, consumer):
    """-> {(topic, partition): [(offset, key, value)]} from a fetch / poll result value"""
    out = {}
    if consumer:
        for s in v.args[1]:
            out[(s.args[0], s.args[1])] = [(m.args[0], m.args[1], m.args[2]) for m in s.args[2]]
    else:
        for r in v:
            for t in r.args[1]:
                for p in t.args[1]:
                    if p.args[1].name == "ok":
                        out[(t.args[0], p.args[0])] = [(m.args[0], m.args[1], m.args[2]) for m in p.args[1].args[1]]
    return out


def release_oracle(case, recs):
    m = case["meta"]
    if recs[-1]["impl"].name in ("panic", "hang", "abort"):
        return ["C18: crashed: %s" % dumps(recs[-1]["impl"])[:100]]
    if len(recs) < len(case["ops"]):
        return ["C18: case did not run to the end"]
    calls = [r for r in recs[m["first"]:] if r["op"].name in ("poll", "fetch_messages")]
    want = "err" if m["rejected"] else "ok"
    fails = []
    for r in calls:
        res = r["impl"]
        if res.name != want:
            fails.append("C18: release rounds (%s): a call returned %s, expected %s" % (m["rejected"] or "accepted", dumps(res)[:80], want))
            break
    live = [r["impl"].args[0] for r in recs if r["op"].name == "live_bytes" and r["impl"].name == "ok"]
    if len(live) != ROUNDS:
        return fails + ["C18: live_bytes readings missing"]
    # the first rounds may still grow pools and tables; from the third on a round must leave nothing behind that adds up
    growth = live[-1] - live[2]
    if growth > (ROUNDS - 3) * m["reply_bytes"] // 4:
        fails.append("C18: memory not released: after each of %d further %s rounds (reply of about %d bytes) the process holds more - %d bytes in all: %s"
                     % (ROUNDS - 3, "refused" if m["rejected"] else "released", m["reply_bytes"], growth, live))
    return fails


def oracle(case, recs, cl):
    m = case["meta"]
    if m.get("release"):
        return release_oracle(case, recs)
    cls = "C18-nested-dangling:" if m["nested"] else "C18:"   # (class of a finding that is now fixed: any failure is a violation)
    fails = []
    if recs[-1]["impl"].name in ("panic", "hang", "abort"):
        return ["%s crashed: %s" % (cls, dumps(recs[-1]["impl"])[:100])]
    if len(recs) < len(case["ops"]) or recs[m["first"]]["impl"].name != "ok":
        return ["C18: case did not run to the end"]
    first = _messages(recs[m["first"]]["impl"].args[0], m["consumer"])
    # the first reading against the log content (byte-identical to what the broker sent)
    for (t, p), log in case["cluster"]["logs"].items():
        if (m.get("midplain") or m.get("siblings")) and p == 0:
            # WHICH messages of this layout are exposed is C02's known class; but whatever is exposed carries the log's bytes
            want = dict((o, (k or b"", v or b"")) for (o, k, v) in kproto.flatten_entries(log))
            for (o, k, v) in first.get((t, p), []):
                if want.get(o) != (k, v):
                    fails.append("%s first reading of %r/%d: offset %d reads key %r value %r, the log holds %r" % (cls, t, p, o, k[:12], v[:12], want.get(o)))
                    break
            continue
        want = [(o, k or b"", v or b"") for (o, k, v) in kproto.flatten_entries(log)]
        got = first.get((t, p), [])
        if got != want:
            fails.append("%s first reading of %r/%d differs from the log: %s" % (cls, t, p, str(got)[:80]))
    for i, r in enumerate(recs):
        if r["op"].name in ("reread_fetch", "reread_poll"):
            if r["impl"].name != "ok" or _messages(r["impl"].args[0], m["consumer"]) != first:
                fails.append("%s reading after step %d differs from the first reading" % (cls, i))
                break
    return fails[:4]


def nontrivial(case, recs):
    if case["meta"].get("release"):
        return len(recs) == len(case["ops"])
    names = [(o["op"] if isinstance(o, dict) else o).name for o in case["ops"]]
    comp = any(e[0] == "wrap" for log in case["cluster"]["logs"].values() for e in log)
    return comp and "move_results" in names and "churn" in names and len(recs) == len(case["ops"])


def stats(case, recs):
    m = case["meta"]
    if m.get("release"):
        return {"release_rounds:%s" % (m["rejected"] or "accepted"): 1, "via:%s" % ("poll" if m["consumer"] else "fetch_messages"): 1}
    return {"nested:%s" % m["nested"]: 1, "reply_over_64KiB:%s" % bool(m.get("large")): 1, "assigned_topics:%d" % (2 if m.get("two_topics") else 1): 1, "via:%s" % ("poll" if m["consumer"] else "fetch_messages"): 1,
            "moves": sum(1 for o in case["ops"] if o.name == "move_results")}
