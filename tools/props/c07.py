"""C07: the consumer starts at the committed offset when valid, else at the fallback offset."""
import random
import kproto
from val import T, dumps
from props import common
from props.common import boot_ops, brokers

SLICE = "Consumer Builder::create -> State::new (load_consumed_offsets, load_fetch_states) and the first Consumer::poll"
RULE = ("per-partition lattice earliest e in {0,5} x latest l in {e,e+3} x committed c in {none, e-1, e, e+1, l-1, l, l+1} (c >= 0; "
        "20 distinct triples). quick: every triple on a single partition x fallback {Earliest, Latest, ByTime} x "
        "{no group, group+Zookeeper, group+Kafka} (180 cases); every ordered pair of triples on 1 topic x 2 partitions (400 cases) "
        "with the 9 fallback/group/storage configurations, 1-2 brokers, coordinator and builder source rotated over the pairs; random "
        "2-topic x 1-2-partition assignments; assigned partitions without a leader (really leaderless, and leaderless only in the "
        "metadata the consumer was created with, then refreshed). thorough: the full product of pairs x 9 configurations x {1,2} "
        "brokers for 1 topic x 2 partitions plus random multi-topic cases. Observed: result of create(), offset of every partition "
        "in the fetch requests of the first poll, first delivered message. non-trivial = create() was decided and at least one "
        "first-fetch offset or an allowed creation failure was compared")
ASSUMPTIONS = ["the reference broker answers offset requests with log_start / last offset + 1 / the scripted by_time answer and "
               "stores committed group offsets as given in the case",
               "a creation failure is accepted (not required) where the statement allows it: ByTime fallback with a partly committed "
               "group, assigned partition without leader"]
EXHAUSTIVE = False

G = b"g"
BYTIME = 1234567


def lattice():
    out = []
    for e in (0, 5):
        for l in (e, e + 3):
            cs = [None]
            for c in (e - 1, e, e + 1, l - 1, l, l + 1):
                if c >= 0 and c not in cs:
                    cs.append(c)
            out.extend((e, l, c) for c in cs)
    return out


LATTICE = lattice()
CONFIGS = [(fb, grp) for fb in ("earliest", "latest", "bytime") for grp in ("none", "zk", "kafka")]


def bytime_answer(e, l):
    return e + 1 if l > e else e


def fallback_val(fb):
    return T("bytime", [BYTIME]) if fb == "bytime" else T(fb)


def metadata_body(spec, hide):
    """metadata reply in which the partitions in `hide` have no leader"""
    return {"brokers": [{"node_id": n, "host": h, "port": p} for n, (h, p) in sorted(spec["brokers"].items())],
            "topics": [{"error": 0, "topic": t,
                        "partitions": [{"error": 5 if (l < 0 or (t, i) in hide) else 0, "id": i,
                                        "leader": -1 if (t, i) in hide else l, "replicas": [], "isr": []}
                                       for i, l in enumerate(ls)]}
                       for t, ls in spec["topics"].items()]}


def make_case(parts, leaders, nb, fb, grp, source="client", coord=None, explicit=False, hide=(), empty_group=False, kind="lattice"):
    """parts: {(topic, p): (e, l, c)}; leaders: {(topic, p): node | -1}; hide: partitions reported leaderless to the consumer
    at creation although the cluster has a leader (a later load_metadata_all shows it)"""
    topics = {}
    for (t, p) in sorted(parts):
        topics.setdefault(t, [])
    for t in topics:
        n = 1 + max(p for (tt, p) in parts if tt == t)
        topics[t] = [leaders[(t, p)] for p in range(n)]
    logs, log_start, committed, decoy, by_time = {}, {}, {}, {}, {}
    for (t, p), (e, l, c) in parts.items():
        logs[(t, p)] = [("plain", o, None, b"m%d" % o) for o in range(e, l)]
        log_start[(t, p)] = e
        by_time[(t, p)] = bytime_answer(e, l)
        if c is not None:
            committed[(t, p)] = c
        decoy[(t, p)] = l if c != l else e      # offsets of other groups: in range, so they would be used if read
    spec = {"brokers": brokers(nb), "topics": topics, "logs": logs, "log_start": log_start,
            "committed": {G: committed, b"h": decoy, b"": dict(decoy)}, "by_time": by_time}
    if coord is not None:
        spec["coordinator"] = {G: coord}
    calls = []
    if grp != "none":
        calls.append(T("with_group", [G]))
        calls.append(T("with_offset_storage", [0 if grp == "zk" else 1]))
    elif empty_group:
        calls.append(T("with_group", [b""]))
        calls.append(T("with_offset_storage", [1]))
    for t in topics:
        if explicit:
            calls.append(T("with_topic_partitions", [t, list(range(len(topics[t])))]))
        else:
            calls.append(T("with_topic", [t]))
    calls.append(T("with_fallback_offset", [fallback_val(fb)]))
    hide = set(hide)
    hosts = [h + b":" + str(p).encode() for _, (h, p) in sorted(spec["brokers"].items())]
    if source == "client":
        ops = boot_ops(spec)
        if hide:
            ops[1] = {"op": ops[1], "mutate": {"api": "metadata", "kind": "body", "body": metadata_body(spec, hide)}}
        build = T("consumer_build", [T("from_client"), calls])
    else:
        ops = []
        build = T("consumer_build", [T("from_hosts", [hosts]), calls])
        if hide:
            build = {"op": build, "mutate": {"api": "metadata", "kind": "body", "body": metadata_body(spec, hide)}}
    ops.append(build)
    ibuild = len(ops) - 1
    # what the generator expects the present implementation to do (only used to avoid ops on a consumer that was not created)
    group = grp != "none"
    noleader = set(tp for tp in parts if leaders[tp] < 0) | hide
    anyc = group and any(c is not None for (_, _, c) in parts.values())
    needs_fb = [tp for tp, (e, l, c) in parts.items() if tp in noleader or not (group and c is not None and e <= c <= l)]
    predicted_fail = (fb == "bytime" and anyc and bool(needs_fb)) or \
                     (not anyc and any(all(leaders[(t, p)] < 0 or (t, p) in hide for p in range(len(ls))) for t, ls in topics.items()))
    ipoll = irefresh = ipoll2 = None
    if not predicted_fail:
        ops.append(T("poll"))
        ipoll = len(ops) - 1
        if hide:
            ops.append(T("load_metadata_all"))
            irefresh = len(ops) - 1
            ops.append(T("poll"))
            ipoll2 = len(ops) - 1
    meta = {"parts": {tp: list(v) for tp, v in parts.items()}, "leaders": dict(leaders), "fallback": fb, "group": grp,
            "hide": sorted(hide), "ibuild": ibuild, "ipoll": ipoll, "ipoll2": ipoll2, "kind": kind, "source": source}
    return {"cluster": spec, "ops": ops, "meta": meta}


def _leaders(rng, keys, nb, spread=True):
    if nb == 1:
        return {k: 1 for k in keys}
    ks = sorted(keys)
    off = rng.randint(0, nb - 1)
    return {k: ((i + off) % nb) + 1 if spread else rng.randint(1, nb) for i, k in enumerate(ks)}


def gen(rng, tier):
    cases = []
    T1, T2 = b"t1", b"t2"
    n = 0
    # A: every triple alone x every configuration
    for tri in LATTICE:
        for (fb, grp) in CONFIGS:
            n += 1
            nb = 1 + n % 2
            parts = {(T1, 0): tri}
            cases.append(make_case(parts, _leaders(rng, parts, nb), nb, fb, grp, source="client" if n % 3 else "hosts",
                                   coord=(1 + (n // 2) % nb) if grp != "none" else None, explicit=(n % 5 == 0),
                                   empty_group=(n % 2 == 0), kind="single"))
    # B: pairs of triples on one topic with two partitions
    pairs = [(a, b) for a in LATTICE for b in LATTICE]
    if tier == "quick":
        rng.shuffle(pairs)
        for i, (a, b) in enumerate(pairs):
            fb, grp = CONFIGS[i % len(CONFIGS)]
            nb = 1 + (i // len(CONFIGS)) % 2
            parts = {(T1, 0): a, (T1, 1): b}
            cases.append(make_case(parts, _leaders(rng, parts, nb), nb, fb, grp, source="client" if i % 4 else "hosts",
                                   coord=rng.randint(1, nb) if grp != "none" else None, explicit=(i % 7 == 0),
                                   empty_group=(i % 2 == 0), kind="pair"))
    else:
        i = 0
        for (a, b) in pairs:
            for (fb, grp) in CONFIGS:
                for nb in (1, 2):
                    i += 1
                    parts = {(T1, 0): a, (T1, 1): b}
                    cases.append(make_case(parts, _leaders(rng, parts, nb), nb, fb, grp, source="client" if i % 4 else "hosts",
                                           coord=rng.randint(1, nb) if grp != "none" else None, explicit=(i % 7 == 0),
                                           empty_group=(i % 2 == 0), kind="pair"))
    # C: two topics, 1-2 partitions each
    for i in range(90 if tier == "quick" else 6000):
        parts = {}
        for t in (T1, T2):
            for p in range(rng.randint(1, 2)):
                parts[(t, p)] = rng.choice(LATTICE)
        fb, grp = CONFIGS[i % len(CONFIGS)]
        if fb == "bytime" and grp != "none" and rng.random() < 0.5:
            # ByTime is only usable with nothing committed, or everything committed in range
            if rng.random() < 0.5:
                parts = {tp: (e, l, None) for tp, (e, l, c) in parts.items()}
            else:
                parts = {tp: (e, l, rng.randint(e, l)) for tp, (e, l, c) in parts.items()}
        nb = rng.randint(1, 2)
        cases.append(make_case(parts, _leaders(rng, parts, nb, spread=rng.random() < 0.5), nb, fb, grp,
                               source=rng.choice(["client", "client", "hosts"]),
                               coord=rng.randint(1, nb) if grp != "none" else None, explicit=rng.random() < 0.2,
                               empty_group=rng.random() < 0.5, kind="multi"))
    # D: assigned partitions without a leader
    for i in range(60 if tier == "quick" else 1500):
        parts = {}
        for t in ((T1,) if i % 2 else (T1, T2)):
            for p in range(rng.randint(1, 3) if t == T1 else rng.randint(1, 2)):
                parts[(t, p)] = rng.choice(LATTICE)
        if len(parts) < 2:
            parts[(T1, 1)] = rng.choice(LATTICE)
        fb, grp = CONFIGS[i % len(CONFIGS)]
        if fb == "bytime" and i % 4:
            fb = rng.choice(["earliest", "latest"])
        nb = rng.randint(1, 2)
        leaders = _leaders(rng, parts, nb)
        victim = rng.choice(sorted(tp for tp in parts if tp[0] == T1))
        if i % 3 == 0:
            leaders[victim] = -1        # really leaderless: can never be fetched
            hide = ()
        else:
            hide = (victim,)            # leaderless only in the metadata seen at creation
        cases.append(make_case(parts, leaders, nb, fb, grp, source="client" if i % 4 else "hosts",
                               coord=rng.randint(1, nb) if grp != "none" else None, hide=hide, kind="leaderless"))
    # E: ByTime fallback for a time at which the broker holds no segment: it answers an EMPTY offset list (error 0), so no start
    #    offset can be determined for the partitions that need the fallback
    for i in range(24 if tier == "quick" else 600):
        parts = {}
        for t in ((T1,) if i % 3 else (T1, T2)):
            for p in range(rng.randint(1, 3)):
                parts[(t, p)] = rng.choice(LATTICE)
        grp = ("none", "none", "kafka", "zk")[i % 4]
        if grp != "none":
            parts = {tp: (e, l, None) for tp, (e, l, c) in parts.items()}      # nothing committed: every partition needs the fallback
        nb = rng.randint(1, 2)
        c = make_case(parts, _leaders(rng, parts, nb), nb, "bytime", grp, source="client" if i % 4 else "hosts",
                      coord=rng.randint(1, nb) if grp != "none" else None, kind="bytime_no_offset")
        victims = rng.sample(sorted(parts), rng.randint(1, len(parts)))
        for tp in victims:
            c["cluster"]["by_time"][tp] = None
        c["meta"]["notime"] = [list(tp) for tp in victims]
        cases.append(c)
    # F: the coordinator is not ready when the consumer asks for the committed offsets (it answers 'offsets still loading' once or
    #    twice, every entry with offset -1 as brokers do): creation retries and still starts at the committed offsets
    for i in range(24 if tier == "quick" else 400):
        parts = {}
        for t in ((T1,) if i % 2 else (T1, T2)):
            for p in range(rng.randint(1, 3)):
                e = rng.choice([0, 5, 100])
                l = e + rng.randint(2, 9)
                parts[(t, p)] = (e, l, rng.randint(e + 1, l - 1))      # committed strictly inside the range: differs from every fallback
        fb = ("earliest", "latest")[i % 2]
        grp = ("kafka", "kafka", "zk")[i % 3]
        nb = rng.randint(1, 2)
        c = make_case(parts, _leaders(rng, parts, nb), nb, fb, grp, source="client" if i % 3 else "hosts",
                      coord=rng.randint(1, nb), kind="coordinator_loading")
        c["cluster"]["group_fetch_script"] = [14] * rng.choice([1, 1, 2])
        cases.append(c)
    # the brokers may list topics and partitions in any order (every third case of the random families)
    orng = random.Random(rng.randint(0, 10 ** 9))
    for c in cases:
        if c["meta"].get("kind") in ("pair", "multi", "leaderless") and not c["cluster"].get("order"):
            common.maybe_order(orng, c["cluster"])
    return cases


# ---- oracle ---------------------------------------------------------------------------------------------------

def fetch_offsets_of(rec):
    """[(topic, partition, offset)] of every partition entry in the fetch requests of one op"""
    out = []
    for h, payload in rec["requests"]:
        try:
            rq = kproto.parse_request(payload)
        except kproto.ProtoError:
            continue
        if rq["api"] != "fetch":
            continue
        for t in rq["body"]["topics"] or []:
            for p in t["partitions"] or []:
                out.append((t["topic"], p["partition"], p["offset"]))
    return out


def start_offset(meta, tp):
    """the offset the statement prescribes for one partition (None for the fallback when the broker cannot be asked)"""
    e, l, c = meta["parts"][tp]
    if meta["group"] != "none" and c is not None and e <= c <= l:
        return c, "committed"
    fb = meta["fallback"]
    return (e if fb == "earliest" else l if fb == "latest" else bytime_answer(e, l)), "fallback"


def oracle(case, recs, cl):
    m = case["meta"]
    fails = []
    for r in recs:
        if r["impl"].name in ("panic", "hang", "abort", "harness_error"):
            return ["C07: %s crashed: %s" % (r["op"].name, dumps(r["impl"])[:120])]
    if len(recs) <= m["ibuild"]:
        return ["C07: case aborted before create()"]
    res = recs[m["ibuild"]]["impl"]
    parts = m["parts"]
    group = m["group"] != "none"
    hide = set(tuple(x) for x in m["hide"])
    noleader = set(tp for tp in parts if m["leaders"][tp] < 0) | hide
    anyc = group and any(c is not None for (_, _, c) in parts.values())
    needs_fb = [tp for tp in parts if tp in noleader or start_offset(m, tp)[1] == "fallback"]
    notime = set(tuple(x) for x in m.get("notime", []))
    unanswerable = sorted(tp for tp in notime if tp not in noleader and start_offset(m, tp)[1] == "fallback")
    may_fail = bool(noleader) or (m["fallback"] == "bytime" and anyc and bool(needs_fb)) or bool(unanswerable)
    if res.name == "err":
        if not may_fail:
            fails.append("C07: create() failed with %s although every partition has a determinable start offset "
                         "(fallback=%s group=%s parts=%s)" % (dumps(res), m["fallback"], m["group"], sorted(parts.items())))
        return fails
    if res.name != "ok":
        return ["C07: create() returned %s" % dumps(res)[:100]]
    if unanswerable:
        first = {(t, p): off for (t, p, off) in fetch_offsets_of(recs[m["ipoll"]])} if m["ipoll"] is not None and len(recs) > m["ipoll"] else {}
        return ["C07-empty-offset-list: the broker reported no offset (empty list, error 0) for the fallback time of %s, no start offset can be "
                "determined, yet create() succeeded; first fetch at %s" % (unanswerable, [first.get(tp) for tp in unanswerable])]
    if m["ipoll"] is None or len(recs) <= m["ipoll"]:
        return fails

    def check_poll(rec, expect_tps, tag):
        seen = {}
        for (t, p, off) in fetch_offsets_of(rec):
            if (t, p) in seen:
                fails.append("C07: %s fetches %r:%d twice" % (tag, t, p))
            seen[(t, p)] = off
        for tp in sorted(seen):
            if tp not in parts:
                fails.append("C07: %s fetches unassigned partition %r:%d" % (tag, tp[0], tp[1]))
        for tp in sorted(expect_tps):
            want, why = start_offset(m, tp)
            if tp not in seen:
                fails.append("C07: %s does not fetch assigned partition %r:%d" % (tag, tp[0], tp[1]))
                continue
            if seen[tp] != want:
                e, l, c = parts[tp]
                cls = "C07-leaderless-start:" if tp in hide else "C07:"
                fails.append("%s first fetch of %r:%d at offset %d, expected %d (%s; earliest=%d latest=%d committed=%s fallback=%s group=%s)"
                             % (cls, tp[0], tp[1], seen[tp], want, why, e, l, c, m["fallback"], m["group"]))
        return seen

    with_leader = [tp for tp in parts if tp not in noleader]
    seen = check_poll(recs[m["ipoll"]], with_leader, "first poll")
    for tp in noleader:
        if tp in seen:
            fails.append("C07: partition %r:%d has no leader in the loaded metadata but was fetched" % tp)
    # no retained message skipped: the first message delivered is the first retained one at or after the start offset
    pres = recs[m["ipoll"]]["impl"]
    if pres.name == "ok":
        delivered = {}
        for s in pres.args[0].args[1]:
            if s.args[2]:
                delivered.setdefault((s.args[0], s.args[1]), s.args[2][0].args[0])
        for tp in with_leader:
            want, _ = start_offset(m, tp)
            e, l, c = parts[tp]
            if want < l and delivered.get(tp) != want:
                fails.append("C07: first message delivered for %r:%d is %s, expected offset %d" % (tp[0], tp[1], delivered.get(tp), want))
            if want >= l and tp in delivered:
                fails.append("C07: %r:%d delivered offset %d although it starts at the end of the log" % (tp[0], tp[1], delivered[tp]))
    elif not fails:
        fails.append("C07: first poll failed: %s" % dumps(pres)[:100])
    # partitions whose leader became known after creation: their first fetch
    if m["ipoll2"] is not None and len(recs) > m["ipoll2"]:
        seen2 = {(t, p): off for (t, p, off) in fetch_offsets_of(recs[m["ipoll2"]])}
        for tp in sorted(hide):
            want, why = start_offset(m, tp)
            if tp not in seen2:
                fails.append("C07: %r:%d not fetched after its leader became known" % tp)
            elif seen2[tp] != want:
                e, l, c = parts[tp]
                fails.append("C07-leaderless-start: %r:%d had no leader when the consumer was created; create() succeeded and its first "
                             "fetch is at offset %d, expected %d (%s; earliest=%d latest=%d committed=%s fallback=%s group=%s)"
                             % (tp[0], tp[1], seen2[tp], want, why, e, l, c, m["fallback"], m["group"]))
    return fails[:6]


def nontrivial(case, recs):
    m = case["meta"]
    if len(recs) != len(case["ops"]) or len(recs) <= m["ibuild"]:
        return False
    res = recs[m["ibuild"]]["impl"]
    if res.name == "err":
        return True
    return res.name == "ok" and m["ipoll"] is not None and bool(fetch_offsets_of(recs[m["ipoll"]]))


def stats(case, recs):
    m = case["meta"]
    s = {"kind:" + m["kind"]: 1, "fallback:" + m["fallback"]: 1, "group:" + m["group"]: 1, "source:" + m["source"]: 1,
         "brokers:%d" % len(case["cluster"]["brokers"]): 1, "partitions:%d" % len(m["parts"]): 1}
    if len(recs) > m["ibuild"]:
        s["create:" + recs[m["ibuild"]]["impl"].name] = 1
    for tp, (e, l, c) in m["parts"].items():
        k = "none" if c is None else "below" if c < e else "above" if c > l else "==earliest==latest" if e == c == l else \
            "==earliest" if c == e else "==latest" if c == l else "inside"
        s["committed:" + k] = s.get("committed:" + k, 0) + 1
        s["log:%s" % ("empty" if e == l else "3msgs")] = s.get("log:%s" % ("empty" if e == l else "3msgs"), 0) + 1
    if m["hide"]:
        s["leaderless:at-creation-only"] = 1
    if any(v < 0 for v in m["leaders"].values()):
        s["leaderless:really"] = 1
    return s
