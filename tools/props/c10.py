"""C10: every well-formed response is decoded to exactly the content the broker sent.

The oracle pairs every request of an op with the reply payload the reference broker actually sent (after the
mutation, if any), parses the reply with kproto (strict) and states what the value returned by the client call
must contain. It never looks at how the reply was produced, so generated bodies and natural answers of the
reference cluster are checked by the same code."""
import kproto
from val import T, dumps
from props.common import boot_ops, brokers, fp, pm, rand_bytes

SLICE = "response decoders (FromByte impls, fetch::Response parser) and the merge of per-broker answers into the result values of KafkaClient"
RULE = ("per API (offsets, list-offsets v1, fetch, produce, offset fetch v0/v1, offset commit v0/v1, metadata, group coordinator) random "
        "well-formed response bodies encoded by kproto and substituted for the broker's answer: topic/partition/offset-array counts "
        "0..5 (sometimes 12/40) and null arrays, i16/i32/i64 extremes, names from {null, empty, ASCII, 2-, 3- and 4-byte UTF-8, 300 "
        "bytes}, message sets plain / one gzip or snappy wrapper / empty / null with null and empty keys and values; the call talks to "
        "1-3 brokers (each gets the body); plus unmutated clusters with arbitrary broker ids/hosts/ports, offsets by time, log starts, "
        "committed offsets and shuffled listing order where every broker answers with different content; two compressed batches inflating to "
        "9..12 MiB (judged by the oracle alone, the model does not evaluate them); a fixed set of 4 offset-fetch "
        "replies naming a topic twice; non-trivial = the replies of some call carry at least two topics or two partitions, or a "
        "boundary value (null/empty array or name, extreme integer, multi-byte name)")
ASSUMPTIONS = ["kproto.encode_response / parse_response are an independent reading of the response grammar (golden layouts in its self-test)",
               "fetch_messages documents that messages below the requested offset are skipped: the expectation keeps a message iff its "
               "offset >= the offset requested for that topic-partition from that broker (0 when the partition was not requested)",
               "message sets stay outside known finding F13 (a compressed wrapper is the only top-level entry of its set)",
               "null strings are reported as empty strings and null arrays as empty collections (the API has no null)",
               "a topic answered with zero partitions may appear with an empty list or not at all in offset result maps"]
EXHAUSTIVE = False

I16MAX, I16MIN = 32767, -32768
I32MAX, I32MIN = 2 ** 31 - 1, -2 ** 31
I64MAX, I64MIN = 2 ** 63 - 1, -2 ** 63
I64S = [0, 1, -1, -2, I64MAX, I64MIN, I32MAX, I32MAX + 1, I32MIN - 1, 1 << 40]
I32S = [0, 1, 2, 3, -1, I32MAX, I32MIN, 65536]
NAMES = [b"", None, b"t", b"t1", b"topic-1", "tøpic".encode(), "日本語".encode(), "\U0001f980\U0001f980".encode(),
         "é".encode() * 150, b"x" * 300, b"a.b_c-d", "€".encode()]


# =====================================================================================================
# the oracle
# =====================================================================================================

def nm(x):
    return b"" if x is None else x


def arr(x):
    return [] if x is None else x


def pairs(rec):
    """[(host, parsed request, reply body | None)] of one op; None when nothing was sent back"""
    out = []
    reqs, reps = rec["requests"], rec["replies"]
    for i, (h, p) in enumerate(reqs):
        try:
            rq = kproto.parse_request(p)
        except kproto.ProtoError:
            continue
        body = None
        if i < len(reps) and reps[i] is not None:
            try:
                _, body = kproto.parse_response(rq["api"], rq["api_version"], reps[i])
            except kproto.ProtoError:
                body = "malformed"
        out.append((h, rq, body))
    return out


class Unchecked(Exception):
    """the replies of this op are outside the property (error codes, malformed, F13 class): nothing is claimed"""


def decode_set(data):
    """[(offset, key, value)] of the complete entries of a message set; Unchecked for the F13 class"""
    if not data:
        return []
    try:
        top, used = kproto.parse_message_set_prefix(data)
    except kproto.ProtoError:
        raise Unchecked("malformed message set")
    codecs = [m["attr"] & 7 for m in top]
    if any(codecs) and len(top) > 1:
        raise Unchecked("F13 class: wrapper next to other entries")
    try:
        return kproto.decode_message_set_deep(data[:used])
    except kproto.ProtoError:
        raise Unchecked("malformed message set")


class Meta:
    """what the metadata answers seen so far say"""

    def __init__(self):
        self.brokers = {}
        self.topics = {}

    def reset(self):
        self.brokers, self.topics = {}, {}

    def apply(self, body):
        for b in arr(body["brokers"]):
            self.brokers[b["node_id"]] = nm(b["host"]) + b":" + str(b["port"]).encode()
        for t in arr(body["topics"]):
            name = nm(t["topic"])
            parts = arr(t["partitions"])
            cur = list(self.topics.get(name, []))[:len(parts)]
            cur += [None] * (len(parts) - len(cur))
            for p in parts:
                if 0 <= p["id"] < len(parts):
                    cur[p["id"]] = p["leader"] if p["leader"] in self.brokers else None
            self.topics[name] = cur

    def view(self):
        out = []
        for name, ls in self.topics.items():
            ps = [T("p", [i, T("leader", [l, self.brokers[l]]) if l is not None else T("noleader")]) for i, l in enumerate(ls)]
            out.append(T("topic", [name, ps, [i for i, l in enumerate(ls) if l is not None]]))
        return sorted(out, key=dumps)


def _sorted(xs):
    return sorted(xs, key=dumps)


def _cut(v, n=150):
    s = dumps(v) if not isinstance(v, str) else v
    return s if len(s) <= n else s[:n] + "..."


def check_offsets(rec, api, ps):
    """fetch_offsets / list_offsets: every partition of every broker reply exactly once under its topic"""
    exp = {}
    for h, rq, body in ps:
        if rq["api"] != api:
            continue
        if body is None or body == "malformed":
            raise Unchecked("no reply")
        for t in arr(body["topics"]):
            lst = exp.setdefault(nm(t["topic"]), [])
            for p in arr(t["partitions"]):
                if p["error"] != 0:
                    raise Unchecked("error code")
                if api == "offsets":
                    offs = arr(p["offsets"])
                    lst.append(T("po", [p["partition"], offs[0] if offs else -1]))
                else:
                    lst.append(T("tpo", [p["partition"], p["offset"], p["timestamp"]]))
    res = rec["impl"]
    if res.name != "ok":
        return ["call failed on well-formed replies: %s" % _cut(res)]
    got = {}
    fails = []
    for t in res.args[0]:
        if t.args[0] in got:
            fails.append("topic %r appears twice in the result map" % t.args[0][:40])
        got[t.args[0]] = t.args[1]
    for name in set(exp) | set(got):
        e, g = _sorted(exp.get(name, [])), _sorted(got.get(name, []))
        if name not in exp:
            fails.append("result names topic %r which no reply named" % name[:40])
        elif e != g:
            fails.append("topic %r: replies carry %s, result has %s" % (name[:40], _cut(e), _cut(g)))
    return fails


def check_fetch(rec, ps):
    exp = []
    for h, rq, body in ps:
        if rq["api"] != "fetch":
            continue
        if body is None or body == "malformed":
            raise Unchecked("no reply")
        asked = {}
        for t in arr(rq["body"]["topics"]):
            for p in arr(t["partitions"]):
                asked[(nm(t["topic"]), p["partition"])] = p["offset"]
        topics = []
        for t in arr(body["topics"]):
            parts = []
            for p in arr(t["partitions"]):
                if p["error"] != 0:
                    raise Unchecked("error code")
                lo = asked.get((nm(t["topic"]), p["partition"]), 0)
                msgs = [T("m", [o, nm(k), nm(v)]) for (o, k, v) in decode_set(p["message_set"]) if o >= lo]
                parts.append(T("part", [p["partition"], T("ok", [p["highwatermark"], msgs])]))
            topics.append(T("topic", [nm(t["topic"]), parts]))
        exp.append(T("resp", [rq["correlation_id"], topics]))
    res = rec["impl"]
    if res.name != "ok":
        return ["call failed on well-formed replies: %s" % _cut(res)]
    e, g = _sorted(exp), _sorted(res.args[0])
    if e == g:
        return []
    if len(e) != len(g):
        return ["%d brokers answered, the result holds %d responses" % (len(e), len(g))]
    for a, b in zip(e, g):
        if a != b:
            # find the first differing partition for a readable message
            for ta, tb in zip(a.args[1], b.args[1]):
                if ta != tb:
                    return ["fetch result differs from the reply in topic %r: sent %s, returned %s" % (ta.args[0][:30], _cut(ta, 200), _cut(tb, 200))]
            return ["fetch result differs from the reply: sent %s, returned %s" % (_cut(a, 200), _cut(b, 200))]
    return []


def check_produce(rec, ps):
    exp = []
    acks0 = False
    for h, rq, body in ps:
        if rq["api"] != "produce":
            continue
        if rq["body"]["acks"] == 0:
            acks0 = True
            continue
        if body is None or body == "malformed":
            raise Unchecked("no reply")
        for t in arr(body["topics"]):
            pcs = []
            for p in arr(t["partitions"]):
                if p["error"] != 0:
                    raise Unchecked("error code")
                pcs.append(T("pc", [p["partition"], T("ok", [p["offset"]])]))
            exp.append(T("confirm", [nm(t["topic"]), pcs]))
    res = rec["impl"]
    if res.name != "ok":
        return ["call failed on well-formed replies: %s" % _cut(res)]
    if acks0:
        return [] if res.args[0] == [] else ["confirms returned although no acknowledgement was requested"]
    e, g = _sorted(exp), _sorted(res.args[0])
    if e != g:
        return ["produce confirms differ: replies carry %s, result has %s" % (_cut(e, 220), _cut(g, 220))]
    return []


def group_content(body):
    """-> ([(topic, [po])] in reply order, has_duplicate_topic)"""
    out = []
    for t in arr(body["topics"]):
        pos = []
        for p in arr(t["partitions"]):
            if p["error"] == 3:
                pos.append(T("po", [p["partition"], -1]))
            elif p["error"] == 0:
                pos.append(T("po", [p["partition"], p["offset"]]))
            else:
                raise Unchecked("error code")
        out.append((nm(t["topic"]), pos))
    names = [n for n, _ in out]
    return out, len(set(names)) != len(names)


def check_group_fetch(rec, ps, single_topic=None):
    last = None
    for h, rq, body in ps:
        if rq["api"] == "offset_fetch":
            last = body
    if last is None or last == "malformed":
        raise Unchecked("no reply")
    content, dup = group_content(last)
    res = rec["impl"]
    cls = "C10-group-dup-topic" if dup else None
    if res.name != "ok":
        return ["call failed on well-formed replies: %s" % _cut(res)], cls
    merged = {}
    for name, pos in content:
        merged.setdefault(name, []).extend(pos)
    if single_topic is not None:
        e = merged.get(single_topic, [])
        g = res.args[0]
        if e != g:
            return ["offsets of %r: reply carries %s, result has %s" % (single_topic[:30], _cut(e), _cut(g))], cls
        return [], cls
    got = {}
    fails = []
    for t in res.args[0]:
        if t.args[0] in got:
            fails.append("topic %r appears twice in the result map" % t.args[0][:40])
        got[t.args[0]] = t.args[1]
    for name in set(merged) | set(got):
        if name not in merged:
            fails.append("result names topic %r which the reply did not name" % name[:40])
        elif name not in got:
            fails.append("topic %r of the reply is missing from the result" % name[:40])
        elif merged[name] != got[name]:
            fails.append("topic %r: reply carries %s, result has %s" % (name[:40], _cut(merged[name]), _cut(got[name])))
    return fails, cls


def check_commit(rec, ps):
    last = None
    for h, rq, body in ps:
        if rq["api"] == "offset_commit":
            last = body
    if last is None or last == "malformed":
        raise Unchecked("no reply")
    for t in arr(last["topics"]):
        for p in arr(t["partitions"]):
            if p["error"] != 0:
                raise Unchecked("error code")
    if rec["impl"] != T("ok", [[]]):
        return ["commit acknowledged by the broker (all codes 0) but the call returned %s" % _cut(rec["impl"])]
    return []


def check_coordinator(ps, md):
    """the request following a successful lookup goes to the coordinator the broker named"""
    fails = []
    target = None
    for h, rq, body in ps:
        if rq["api"] == "group_coordinator":
            target = None
            if isinstance(body, dict) and body["error"] == 0:
                cid = body["coordinator_id"]
                named = nm(body["host"]) + b":" + str(body["port"]).encode()
                if cid not in md.brokers:
                    md.brokers[cid] = named
                target = (md.brokers[cid], named, cid)
        elif rq["api"] in ("offset_commit", "offset_fetch") and target is not None:
            if h != target[0]:
                fails.append("coordinator answer named broker %d at %r, the %s went to %r" % (target[2], target[1][:40], rq["api"], h[:40]))
            target = None
    return fails


def evaluate(case, recs):
    """-> (failures, counters of what was compared / left unclaimed)"""
    fails = []
    cnt = {}
    md = Meta()
    for i, rec in enumerate(recs):
        op = rec["op"]
        n = op.name
        if rec["impl"].name in ("panic", "hang", "abort", "harness_error"):
            fails.append("C10: op %d %s crashed on a well-formed reply: %s" % (i, n, _cut(rec["impl"], 100)))
            break
        ps = pairs(rec)
        cls = None
        out = []
        claimed = n in CLAIMS
        try:
            if n == "load_metadata_all":
                md.reset()
            if n in ("load_metadata_all", "load_metadata"):
                bodies = [b for (_, rq, b) in ps if rq["api"] == "metadata"]
                if bodies and isinstance(bodies[-1], dict):
                    if rec["impl"].name != "ok":
                        out.append("metadata call failed on a well-formed reply: %s" % _cut(rec["impl"]))
                    else:
                        md.apply(bodies[-1])
            elif n == "reset_metadata":
                md.reset()
            elif n == "topics":
                e = md.view()
                g = _sorted(rec["impl"].args[0]) if rec["impl"].name == "ok" else None
                if e != g:
                    bad = [x for x in e if g is None or x not in g][:1]
                    extra = [x for x in (g or []) if x not in e][:1]
                    out.append("metadata view differs from the answers: expected %s, view has %s" % (_cut(bad[0] if bad else "(nothing more)", 220),
                                                                                                      _cut(extra[0] if extra else "(missing)", 220)))
            elif n == "fetch_offsets":
                out += check_offsets(rec, "offsets", ps)
            elif n == "list_offsets":
                out += check_offsets(rec, "list_offsets", ps)
            elif n == "fetch_messages":
                out += check_fetch(rec, ps)
            elif n == "reread_fetch" and i > 0 and recs[i - 1]["op"].name == "fetch_messages" and recs[i - 1]["impl"].name == "ok":
                if rec["impl"] != recs[i - 1]["impl"]:
                    out.append("reading the fetch responses a second time gives different content")
            elif n == "produce_messages":
                out += check_produce(rec, ps)
            elif n in ("fetch_group_offsets", "fetch_group_topic_offset", "commit_offsets"):
                out += check_coordinator(ps, md)
                if any(rq["api"] == "group_coordinator" and isinstance(b, dict) and case["meta"].get("fake_coordinator") for _, rq, b in ps):
                    raise Unchecked("the named coordinator does not exist: only the addressing is claimed")
                if n == "commit_offsets":
                    if any(rq["api"] == "offset_commit" for _, rq, _b in ps):
                        out += check_commit(rec, ps)
                else:
                    if any(rq["api"] == "offset_fetch" for _, rq, _b in ps):
                        f, cls = check_group_fetch(rec, ps, op.args[1] if n == "fetch_group_topic_offset" else None)
                        out += f
        except Unchecked as ex:
            claimed = False
            k = "unclaimed:%s:%s" % (n, str(ex)[:40])
            cnt[k] = cnt.get(k, 0) + 1
        if claimed:
            cnt["compared:" + n] = cnt.get("compared:" + n, 0) + 1
        for f in out:
            fails.append("%s: op %d %s: %s" % (cls or "C10", i, n, f))
    if len(recs) < len(case["ops"]) and not fails:
        fails.append("C10: case aborted early at op %d" % (len(recs) - 1))
    return fails[:6], cnt


CLAIMS = ("topics", "fetch_offsets", "list_offsets", "fetch_messages", "reread_fetch", "produce_messages", "fetch_group_offsets",
          "fetch_group_topic_offset", "commit_offsets")


def oracle(case, recs, cl):
    return evaluate(case, recs)[0]


def _reply_shape(recs):
    """(max topics, max partitions) over the reply bodies of one case"""
    mt = mp = 0
    for rec in recs:
        for h, rq, body in pairs(rec):
            if not isinstance(body, dict) or "topics" not in body:
                continue
            ts = arr(body["topics"])
            mt = max(mt, len(ts))
            mp = max(mp, sum(len(arr(t["partitions"])) for t in ts))
    return mt, mp


def nontrivial(case, recs):
    if len(recs) < len(case["ops"]):
        return False
    if case["meta"].get("boundary"):
        return True
    mt, mp = _reply_shape(recs)
    return mt >= 2 or mp >= 2


def stats(case, recs):
    s = {"family:" + case["meta"]["family"]: 1}
    if any(r.get("impl_only") for r in recs):
        s["calls judged by the oracle alone (not evaluated by the model)"] = sum(1 for r in recs if r.get("impl_only"))
    s.update(evaluate(case, recs)[1])
    for rec in recs:
        n = rec["op"].name
        ps = pairs(rec)
        hosts = set(h for h, rq, b in ps if rq["api"] not in ("group_coordinator", "metadata"))
        if hosts and n in ("fetch_offsets", "list_offsets", "fetch_messages", "produce_messages"):
            s["brokers_answering:%d" % len(hosts)] = s.get("brokers_answering:%d" % len(hosts), 0) + 1
        for h, rq, body in ps:
            if isinstance(body, dict):
                k = "reply:%s.v%d" % (rq["api"], rq["api_version"])
                s[k] = s.get(k, 0) + 1
                if "topics" in body:
                    if body["topics"] is None:
                        s["null-topic-array"] = s.get("null-topic-array", 0) + 1
                    k = "topics-in-reply:%s" % (len(arr(body["topics"])) if len(arr(body["topics"])) < 5 else "5+")
                    s[k] = s.get(k, 0) + 1
    for b in case["meta"].get("bounds", []):
        s["boundary:" + b] = s.get("boundary:" + b, 0) + 1
    return s


# =====================================================================================================
# the generator
# =====================================================================================================

class G:
    def __init__(self, rng, family):
        self.rng = rng
        self.family = family
        self.bounds = set()
        self.over = False

    def i64(self, p=0.5):
        if self.rng.random() < p:
            self.bounds.add("int64")
            return self.rng.choice(I64S)
        return self.rng.randint(0, 1000)

    def i32(self, p=0.35):
        if self.rng.random() < p:
            v = self.rng.choice(I32S)
            if v in (-1, I32MAX, I32MIN):
                self.bounds.add("int32")
            return v
        return self.rng.randint(0, 9)

    def name(self):
        v = self.rng.choice(NAMES)
        if v is None:
            self.bounds.add("null-name")
        elif v == b"":
            self.bounds.add("empty-name")
        elif max(v) > 127:
            self.bounds.add("utf8-name")
        elif len(v) >= 300:
            self.bounds.add("long-name")
        return v

    def names(self, n, distinct=False):
        out = []
        tries = 0
        while len(out) < n and tries < 200:
            tries += 1
            v = self.name()
            if distinct and nm(v) in [nm(x) for x in out]:
                v = nm(v) + b"#%d" % len(out)
            out.append(v)
        return out

    def count(self, big=None):
        r = self.rng.random()
        if r < 0.08:
            self.bounds.add("null-array")
            return None
        if r < 0.18:
            self.bounds.add("empty-array")
            return 0
        if big and r < 0.22:
            self.bounds.add("count-%d" % big)
            return big
        if big and big >= 40 and r < 0.235 and not self.over:
            # once per case at most: an array longer than any pre-allocation cap a decoder might apply (1024 here)
            self.over = True
            self.bounds.add("count-over-1024")
            return self.rng.choice([1024, 1025, 1100, 1500])
        return self.rng.choice([1, 1, 2, 2, 3, 4, 5])

    def array(self, fn, big=None):
        n = self.count(big)
        if n is None:
            return None
        return [fn(i) for i in range(n)]

    def blob(self):
        r = self.rng.random()
        if r < 0.15:
            return None
        if r < 0.3:
            return b""
        if r < 0.9:
            return rand_bytes(self.rng, 1, 24)
        return rand_bytes(self.rng, 400, 2500)


def topics_array(g, part, distinct=False, big_parts=None):
    n = g.count(12)
    if n is None:
        return None
    names = g.names(n, distinct)
    return [{"topic": names[i], "partitions": g.array(lambda j: part(j), big_parts)} for i in range(n)]


def body_offsets(g):
    def part(j):
        return {"partition": g.i32(), "error": 0, "offsets": g.array(lambda k: g.i64())}
    return {"topics": topics_array(g, part, big_parts=40)}


def body_list_offsets(g):
    def part(j):
        return {"partition": g.i32(), "error": 0, "timestamp": g.i64(), "offset": g.i64()}
    return {"topics": topics_array(g, part, big_parts=40)}


def message_set(g, around=None):
    """plain messages, or one wrapper; offsets increasing from a random base (or straddling `around`)"""
    rng = g.rng
    r = rng.random()
    if r < 0.08:
        g.bounds.add("null-set")
        return None
    if r < 0.16:
        g.bounds.add("empty-set")
        return b""
    n = rng.choice([1, 1, 2, 3, 5])
    if around is not None:
        base = max(I64MIN, around - rng.randint(0, 2))
    else:
        base = rng.choice([0, 0, 1, 7, I64MAX - n, 1 << 33, -3])
        if base not in (0, 1, 7):
            g.bounds.add("int64")
    msgs = []
    off = base
    for _ in range(n):
        msgs.append(("plain", off, g.blob(), g.blob()))
        off += rng.choice([1, 1, 1, 3])
        if off > I64MAX:
            break
    kind = rng.choice(["plain", "plain", "gzip", "snappy"])
    if kind == "plain":
        return kproto.encode_entries(msgs)
    g.bounds.add("wrapper")
    return kproto.encode_entries([("wrap", kind, msgs[-1][1], msgs)], snappy_chunk=rng.choice([None, 64]), snappy_copies=rng.random() < 0.5)


def body_fetch(g, asked):
    """asked: [(topic, partition, offset)] of the request: some of them are answered, around the asked offset"""
    rng = g.rng
    topics = topics_array(g, lambda j: {"partition": g.i32(), "error": 0, "highwatermark": g.i64(), "message_set": message_set(g)})
    extra = []
    for (t, p, off) in asked:
        if rng.random() < 0.7:
            extra.append({"topic": t, "partitions": [{"partition": p, "error": 0, "highwatermark": g.i64(),
                                                      "message_set": message_set(g, around=off)}]})
    if extra:
        topics = (topics or []) + extra
        rng.shuffle(topics)
    return {"topics": topics}


def body_produce(g):
    def part(j):
        return {"partition": g.i32(), "error": 0, "offset": g.i64()}
    return {"topics": topics_array(g, part, big_parts=40)}


def body_offset_fetch(g, want=None):
    def part(j):
        none = g.rng.random() < 0.25
        if none:
            g.bounds.add("none-offset")
        style = g.rng.random()
        if none and style < 0.5:
            return {"partition": g.i32(), "offset": g.i64(), "metadata": g.rng.choice([None, b"", b"meta"]), "error": 3}
        return {"partition": g.i32(), "offset": -1 if none else g.i64(), "metadata": g.rng.choice([None, b"", "méta".encode()]), "error": 0}
    topics = topics_array(g, part, distinct=True, big_parts=40)
    if want is not None and g.rng.random() < 0.75:
        topics = [t for t in (topics or []) if nm(t["topic"]) != want]
        topics.insert(g.rng.randint(0, len(topics)), {"topic": want, "partitions": g.array(part, 40)})
    return {"topics": topics}


def body_offset_commit(g):
    return {"topics": topics_array(g, lambda j: {"partition": g.i32(), "error": 0})}


def body_metadata(g, keep_ids=()):
    rng = g.rng
    nb = g.count()
    ids = []
    while len(ids) < (nb or 0):
        v = rng.choice([0, 1, 2, 3, 5, 1000, I32MAX, I32MIN, -1, -7, 65536])
        if v not in ids:
            ids.append(v)
    if any(v in (I32MAX, I32MIN, -1) for v in ids):
        g.bounds.add("int32")
    hosts = [rng.choice([b"h", b"", None, "hôte.example".encode(), b"10.0.0.1", "ホスト".encode(), b"x" * 255]) for _ in ids]
    ports = [rng.choice([9092, 0, 1, 65535, -1, I32MAX, I32MIN]) for _ in ids]
    brokers_ = None if nb is None else [{"node_id": ids[i], "host": hosts[i], "port": ports[i]} for i in range(len(ids))]

    def replicas():
        return g.array(lambda k: g.i32())

    nt = g.count(12)
    topics = None
    if nt is not None:
        names = g.names(nt, distinct=True)
        topics = []
        for i in range(nt):
            np_ = g.count(40)
            parts = None
            if np_ is not None:
                order = list(range(np_))
                rng.shuffle(order)
                parts = []
                for pid in order:
                    r = rng.random()
                    if r < 0.7 and ids:
                        leader = rng.choice(ids)
                    elif r < 0.85:
                        leader = -1 if -1 not in ids else -2
                    else:
                        leader = rng.choice([4, 77, I32MAX - 1])     # a broker the answer does not list
                        while leader in ids:
                            leader += 1
                    err = 0 if leader in ids else 5
                    if leader in ids and rng.random() < 0.2:
                        # a partition-level code next to a live, listed leader (9 = a follower replica is down): the leader stands
                        err = rng.choice([9, 9, 9, 5, 3, -1])
                        g.bounds.add("partition-error-with-leader")
                    parts.append({"error": err, "id": pid, "leader": leader, "replicas": replicas(), "isr": replicas()})
            topics.append({"error": 0, "topic": names[i], "partitions": parts})
    return {"brokers": brokers_, "topics": topics}


def finish(g, spec, ops, **extra):
    meta = {"family": g.family, "boundary": bool(g.bounds), "bounds": sorted(g.bounds)}
    meta.update(extra.pop("meta", {}))
    case = {"cluster": spec, "ops": ops, "meta": meta}
    case.update(extra)
    return case


def spread_cluster(rng, nb):
    """topic `multi` has one partition on every broker, `one` lives on broker 1"""
    topics = {b"multi": list(range(1, nb + 1)) + [rng.randint(1, nb)], b"one": [1, 1], "déux".encode(): [nb]}
    return {"brokers": brokers(nb), "topics": topics, "logs": {}}


def mut(api, body):
    return {"kind": "body", "api": api, "body": body}


def case_mutated(rng, api):
    g = G(rng, "body-" + api)
    nb = rng.choice([1, 2, 2, 3, 3])
    spec = spread_cluster(rng, nb)
    ops = boot_ops(spec)
    wide = rng.random() < 0.7          # talk to every broker, or to one
    names = [b"multi", b"one"] if wide else [rng.choice([b"one", "déux".encode()])]
    if api == "offsets":
        ops.append({"op": T("fetch_offsets", [names, rng.choice([T("latest"), T("earliest"), T("bytime", [5])])]), "mutate": mut(api, body_offsets(g))})
    elif api == "list_offsets":
        ops.append({"op": T("list_offsets", [names, rng.choice([T("latest"), T("earliest"), T("bytime", [5])])]), "mutate": mut(api, body_list_offsets(g))})
    elif api == "fetch":
        asked = []
        for t in names:
            for p in range(len(spec["topics"][t])):
                if rng.random() < 0.8:
                    off = rng.choice([0, 0, 3, 1 << 33, I64MIN, I64MAX - 2])
                    asked.append((t, p, off))
        if not asked:
            asked = [(names[0], 0, 0)]
        ops.append({"op": T("fetch_messages", [[fp(t, p, o) for (t, p, o) in asked]]), "mutate": mut(api, body_fetch(g, asked))})
        ops.append(T("reread_fetch"))
    elif api == "produce":
        msgs = [pm(t, p, None, b"v") for t in names for p in range(len(spec["topics"][t]))]
        ops.append({"op": T("produce_messages", [rng.choice([1, -1]), 1, 0, msgs]), "mutate": mut(api, body_produce(g))})
    elif api == "offset_fetch":
        spec["coordinator"] = {b"g": rng.randint(1, nb)}
        ops.append(T("set_group_offset_storage", [rng.choice([0, 1])]))
        if rng.random() < 0.5:
            ops.append({"op": T("fetch_group_offsets", [b"g", [T("fgo", [b"multi", 0]), T("fgo", [b"one", 1])]]), "mutate": mut(api, body_offset_fetch(g))})
        else:
            want = rng.choice([b"multi", b"one"])
            ops.append({"op": T("fetch_group_topic_offset", [b"g", want]), "mutate": mut(api, body_offset_fetch(g, want))})
    elif api == "offset_commit":
        spec["coordinator"] = {b"g": rng.randint(1, nb)}
        ops.append(T("set_group_offset_storage", [rng.choice([0, 1])]))
        ops.append({"op": T("commit_offsets", [b"g", [T("co", [b"multi", 0, g.i64()]), T("co", [b"one", 1, 5])]]), "mutate": mut(api, body_offset_commit(g))})
    elif api == "metadata":
        if rng.random() < 0.7:
            ops.append({"op": T("load_metadata_all"), "mutate": mut(api, body_metadata(g))})
        else:
            ops.append({"op": T("load_metadata", [[b"one", b"new"]]), "mutate": mut(api, body_metadata(g))})
        ops.append(T("topics"))
    elif api == "group_coordinator":
        ops.append(T("set_group_offset_storage", [rng.choice([0, 1])]))
        cid = rng.choice([0, 4, 77, I32MAX, I32MIN, -1])
        host = rng.choice([b"coord", None, b"", "coörd.example".encode(), b"y" * 200])
        port = rng.choice([9092, 0, -1, 65535, I32MAX, I32MIN])
        g.bounds.add("coordinator")
        body = {"error": 0, "coordinator_id": cid, "host": host, "port": port}
        kind = rng.choice(["commit", "fetch", "topic"])
        if kind == "commit":
            op = T("commit_offsets", [b"g", [T("co", [b"one", 0, 1])]])
        elif kind == "fetch":
            op = T("fetch_group_offsets", [b"g", [T("fgo", [b"one", 0])]])
        else:
            op = T("fetch_group_topic_offset", [b"g", b"multi"])
        ops.append({"op": op, "mutate": mut(api, body)})
        return finish(g, spec, ops, meta={"fake_coordinator": True})
    return finish(g, spec, ops)


def plain_or_wrapped_log(rng, start):
    n = rng.randint(0, 4)
    msgs = []
    off = start
    for _ in range(n):
        k = None if rng.random() < 0.4 else rand_bytes(rng, 0, 5)
        v = None if rng.random() < 0.15 else rand_bytes(rng, 0, 30)
        msgs.append(("plain", off, k, v))
        off += rng.choice([1, 1, 2])
    if msgs and rng.random() < 0.4:
        return [("wrap", rng.choice(["gzip", "snappy"]), msgs[-1][1], msgs)]
    return msgs


def case_natural(rng):
    """no mutation: every broker answers from its own, different, content"""
    g = G(rng, "natural")
    nb = rng.choice([2, 3, 3])
    ids = rng.sample([1, 2, 3, 7, 1000, I32MAX, 65536], nb)
    hostnames = rng.sample([b"b1", b"b2", "bröker".encode(), b"10.1.2.3", "ブローカー".encode(), b"k" * 100], nb)
    ports = [rng.choice([9092, 1, 65535, 0, 12345]) for _ in ids]
    spec = {"brokers": {ids[i]: (hostnames[i], ports[i] + i) for i in range(nb)}, "topics": {}, "logs": {}, "log_start": {}, "by_time": {}}
    if max(ids) > 1000:
        g.bounds.add("int32")
    names = []
    for v in rng.sample([x for x in NAMES if x is not None], rng.randint(2, 4)):
        names.append(v)
    committed = {}
    for t in names:
        np_ = rng.randint(1, 5)
        spec["topics"][t] = [(-1 if rng.random() < 0.12 else rng.choice(ids)) for _ in range(np_)]
        for p in range(np_):
            start = rng.choice([0, 0, 5, 1 << 35, I64MAX - 20])
            if rng.random() < 0.7:
                spec["logs"][(t, p)] = plain_or_wrapped_log(rng, start)
            spec["log_start"][(t, p)] = start
            spec["by_time"][(t, p)] = rng.choice(I64S)
            if rng.random() < 0.6:
                committed[(t, p)] = rng.choice([x for x in I64S if x != -1])
    g.bounds.add("int64")
    spec["committed"] = {b"grp": committed}
    spec["coordinator"] = {b"grp": rng.choice(ids)}
    if rng.random() < 0.6:
        spec["order"] = rng.choice(["reversed", rng.randint(0, 99)])
    ops = boot_ops(spec, all_hosts=rng.random() < 0.5) + [T("topics")]
    allp = [(t, p) for t in names for p, l in enumerate(spec["topics"][t])]
    led = [(t, p) for (t, p) in allp if spec["topics"][t][p] >= 0]
    when = rng.choice([T("latest"), T("earliest"), T("bytime", [rng.choice([0, 5, 1 << 41])])])
    ops.append(T("fetch_offsets", [list(names), when]))
    ops.append(T("list_offsets", [list(reversed(names)), rng.choice([T("latest"), T("earliest"), T("bytime", [rng.choice([0, 5, 1 << 41])])])]))
    fps = []
    for (t, p) in led:
        log = kproto.flatten_entries(spec["logs"].get((t, p), []))
        lo = spec["log_start"][(t, p)]
        hi = (log[-1][0] + 1) if log else lo
        fps.append(fp(t, p, rng.choice([lo, hi, rng.randint(lo, hi)])))
    ops.append(T("fetch_messages", [fps]))
    storage = rng.choice([0, 1])
    ops.append(T("set_group_offset_storage", [storage]))
    ops.append(T("fetch_group_offsets", [b"grp", [T("fgo", [t, p]) for (t, p) in allp]]))
    ops.append(T("fetch_group_topic_offset", [b"grp", rng.choice(names)]))
    if led:
        ops.append(T("commit_offsets", [b"grp", [T("co", [t, p, rng.choice(I64S[:6])]) for (t, p) in rng.sample(allp, min(3, len(allp)))]]))
        ops.append(T("fetch_group_offsets", [b"grp", [T("fgo", [t, p]) for (t, p) in allp]]))
        ops.append(T("produce_messages", [rng.choice([1, -1]), 1, 0, [pm(t, p, None, rand_bytes(rng, 0, 9)) for (t, p) in led]]))
        ops.append(T("fetch_offsets", [list(names), T("latest")]))
    return finish(g, spec, ops)


def cases_dup_topic(rng):
    """an offset-fetch reply that names one topic twice with different partitions (fixed, 4 cases)"""
    out = []
    for storage in (0, 1):
        for single in (False, True):
            g = G(rng, "group-dup-topic")
            g.bounds.add("dup-topic")
            spec = spread_cluster(rng, 2)
            spec["coordinator"] = {b"g": 1}
            body = {"topics": [{"topic": b"multi", "partitions": [{"partition": 0, "offset": 11, "metadata": b"", "error": 0}]},
                               {"topic": b"one", "partitions": [{"partition": 0, "offset": 5, "metadata": b"", "error": 0}]},
                               {"topic": b"multi", "partitions": [{"partition": 1, "offset": 22, "metadata": b"", "error": 0},
                                                                  {"partition": 2, "offset": -1, "metadata": b"", "error": 0}]}]}
            op = T("fetch_group_topic_offset", [b"g", b"multi"]) if single else \
                T("fetch_group_offsets", [b"g", [T("fgo", [b"multi", 0]), T("fgo", [b"multi", 1]), T("fgo", [b"multi", 2]), T("fgo", [b"one", 0])]])
            ops = boot_ops(spec) + [T("set_group_offset_storage", [storage]), {"op": op, "mutate": mut("offset_fetch", body)}]
            out.append(finish(g, spec, ops))
    return out


APIS = ["offsets", "list_offsets", "fetch", "produce", "offset_fetch", "offset_commit", "metadata", "group_coordinator"]
WEIGHT = {"offsets": 100, "list_offsets": 90, "fetch": 150, "produce": 90, "offset_fetch": 110, "offset_commit": 40, "metadata": 130,
          "group_coordinator": 30}


def case_big_batch(rng, codec):
    """one compressed batch that inflates to 9..12 MiB (compressible records of 256..768 KiB; a few dozen KiB on the wire): every message of
    it must come back. The call is run on the implementation only (see caselib `impl_only`): the oracle compares the result with the
    reply as for every other fetch."""
    g = G(rng, "big-batch")
    g.bounds.add("inflated-over-8MiB")
    total, recs, off = rng.randint(9, 12) << 20, [], rng.randint(0, 50)
    while total > 0:
        n = rng.randint(256, 768) << 10
        unit = rand_bytes(rng, 3, 40)
        recs.append(("plain", off, None if off % 3 else b"k%d" % off, (unit * (n // len(unit) + 1))[:n]))
        off += 1
        total -= n
    spec = {"brokers": brokers(1), "topics": {b"big": [1]}, "logs": {(b"big", 0): [("wrap", codec, recs[-1][1], recs)]}}
    ops = boot_ops(spec) + [{"op": T("fetch_messages", [[fp(b"big", 0, recs[0][1], 32 << 20)]]), "impl_only": True}]
    return finish(g, spec, ops)


def gen(rng, tier):
    scale = 1 if tier == "quick" else 40
    cases = []
    for api in APIS:
        for _ in range(WEIGHT[api] * scale):
            cases.append(case_mutated(rng, api))
    for _ in range(120 * scale):
        cases.append(case_natural(rng))
    cases += cases_dup_topic(rng)
    for codec in (["gzip", "snappy"] if tier == "quick" else ["gzip", "snappy"] * 4):
        cases.append(case_big_batch(rng, codec))
    return cases
