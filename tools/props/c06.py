"""C06: requests are routed by the latest loaded metadata, over any load history; bootstrap host choice."""
import itertools

import kproto
from val import T, dumps
from props.common import fp, pm

SLICE = "ClientState.update_metadata / clear_metadata / find_broker, KafkaClient.fetch_metadata (bootstrap iteration), request grouping by leader host"
RULE = ("histories of 1-8 ops from {load_metadata_all, load_metadata(subset incl. [] and nonexistent names), reset_metadata}; every load is answered "
        "by a generated well-formed metadata response (reply mutation) taken from a simulated cluster that evolves between loads: brokers added / "
        "removed / moved to another host:port under the same node id / replaced at the same address by a new id, leaders changed or -1 or a "
        "never-advertised id, partition counts grown or shrunk (down to 0), topics added or deleted, brokers/topics/partitions listed in random order; "
        "after EVERY history op the client's topics() view and the routing of a fetch over all partitions are compared with the merge computed in "
        "python from the responses; after the whole history additionally fetch_offsets, list_offsets and produce (acks 1) over everything, and "
        "produce to a leaderless partition; bootstrap: ALL host lists of 1-4 hosts x ALL unreachable subsets (30 combinations, enumerated, x 2 host "
        "pools) plus a second load under another random unreachable subset; non-trivial = a history case with >= 2 loads whose merged view has a "
        "partition with a leader, or a bootstrap case with an unreachable host in front of a reachable one or none reachable")
ASSUMPTIONS = ["a well-formed metadata response lists partition ids 0..N-1 of a topic exactly once and names as leader -1, a broker of its own broker list, "
               "a broker id advertised earlier and never again, or an id never advertised at all (a leader id that becomes known only by a LATER "
               "response is not generated: the property text does not say whether the merge resolves it)",
               "a pooled connection counts as 'can be reached' (the second bootstrap load re-uses the connection of the first)"]
EXHAUSTIVE = False

BOOT = b"boot:9000"
HOSTPOOL = [(b"h%d" % i, 9090 + i) for i in range(1, 10)] + [(b"h1", 7000), (b"h2", 7001)]
NEVER = 4242          # a node id no response ever advertises


def hp(h, p):
    return h + b":" + str(p).encode()


# ---- the merge, straight from the property text -------------------------------------------------------------

class Merge:
    """per topic the latest response mentioning it, per broker id its latest advertised host:port, all forgotten on reset"""

    def __init__(self):
        self.known = {}     # node id -> b"host:port"
        self.view = {}      # topic -> [leader id per partition id]

    def reset(self):
        self.known.clear()
        self.view.clear()

    def response(self, body):
        for b in body["brokers"]:
            self.known[b["node_id"]] = hp(b["host"], b["port"])
        for t in body["topics"]:
            n = len(t["partitions"])
            ls = [-1] * n
            for p in t["partitions"]:
                if 0 <= p["id"] < n:
                    ls[p["id"]] = p["leader"]
            self.view[t["topic"]] = ls

    def leader(self, topic, p):
        """-> (node id, host) | None"""
        ls = self.view.get(topic)
        if ls is None or not (0 <= p < len(ls)):
            return None
        h = self.known.get(ls[p])
        return None if h is None else (ls[p], h)

    def topics_val(self):
        out = []
        for t in sorted(self.view):
            ps, av = [], []
            for i in range(len(self.view[t])):
                l = self.leader(t, i)
                if l is None:
                    ps.append(T("p", [i, T("noleader")]))
                else:
                    ps.append(T("p", [i, T("leader", [l[0], l[1]])]))
                    av.append(i)
            out.append(T("topic", [t, ps, av]))
        return out

    def routes(self):
        """{(topic, partition): host} of all partitions with a leader"""
        return {(t, i): self.leader(t, i)[1] for t in self.view for i in range(len(self.view[t])) if self.leader(t, i)}

    def all_parts(self):
        return [(t, i) for t in sorted(self.view) for i in range(len(self.view[t]))]


def op_of(item):
    return item["op"] if isinstance(item, dict) else item


def static_body(spec, want):
    """what the unmodified reference cluster answers (bootstrap cases)"""
    names = list(spec["topics"]) if not want else want
    return {"brokers": [{"node_id": n, "host": h, "port": p} for n, (h, p) in spec["brokers"].items()],
            "topics": [{"topic": t, "partitions": [{"id": i, "leader": l} for i, l in enumerate(spec["topics"][t])]}
                       if t in spec["topics"] else {"topic": t, "partitions": []} for t in names]}


def replay_merge(case, upto, recs=None):
    """the expected merge after ops[0..upto] (inclusive). A load whose call failed contributed no response."""
    m = Merge()
    for i, item in enumerate(case["ops"][:upto + 1]):
        op = op_of(item)
        if op.name == "client_new":
            m = Merge()
        elif op.name in ("consumer_build", "producer_build") and op.args[0].name == "from_hosts":
            m = Merge()                 # a fresh client that loads the metadata of all topics
            m.response(static_body(case["cluster"], []))
        elif op.name == "reset_metadata":
            m.reset()
        elif op.name in ("load_metadata_all", "load_metadata"):
            if op.name == "load_metadata_all":
                m.reset()
            if recs is not None and recs[i]["impl"].name != "ok":
                continue
            if isinstance(item, dict) and item.get("fails"):
                continue                # the case makes this load fail (fault plan): it contributes no response
            if isinstance(item, dict) and item.get("mutate"):
                m.response(item["mutate"]["body"])
            else:
                m.response(static_body(case["cluster"], [] if op.name == "load_metadata_all" else op.args[0]))
    return m


# ---- a cluster that evolves between loads ---------------------------------------------------------------------

class World:
    def __init__(self, rng):
        self.rng = rng
        self.next_id = rng.choice([0, 1, 1, 5])
        self.alive = {}          # id -> (host, port)
        self.gone = []           # ids removed for good (never advertised again)
        self.topics = {}         # name -> [leader id]
        self.ntopic = 0
        for _ in range(rng.randint(1, 3)):
            self.add_broker()
        for _ in range(rng.randint(1, 3)):
            self.add_topic()

    def free_addr(self, allow_reuse=False):
        used = set(self.alive.values())
        cands = [a for a in HOSTPOOL if a not in used]
        return self.rng.choice(cands)

    def add_broker(self):
        if len(self.alive) >= 5:
            return
        self.alive[self.next_id] = self.free_addr()
        self.next_id += self.rng.choice([1, 1, 2, 7])

    def pick_leader(self):
        r = self.rng.random()
        if r < 0.1:
            return -1
        if r < 0.13:
            return NEVER
        if r < 0.17 and self.gone:
            return self.rng.choice(self.gone)
        return self.rng.choice(sorted(self.alive))

    def add_topic(self):
        name = b"t%d" % self.ntopic
        self.ntopic += 1
        self.topics[name] = [self.pick_leader() for _ in range(self.rng.choice([1, 1, 2, 3, 4, 6]))]

    def evolve(self):
        rng = self.rng
        for _ in range(rng.choice([0, 1, 1, 2, 3])):
            k = rng.random()
            if k < 0.15:
                self.add_broker()
            elif k < 0.3 and len(self.alive) > 1:
                b = rng.choice(sorted(self.alive))
                addr = self.alive.pop(b)
                self.gone.append(b)
                stale = rng.random() < 0.25            # some partitions keep naming the removed broker
                for ls in self.topics.values():
                    for i, l in enumerate(ls):
                        if l == b and not stale:
                            ls[i] = rng.choice(sorted(self.alive) + [-1])
                if rng.random() < 0.3:                 # a new broker id takes over the address
                    self.alive[self.next_id] = addr
                    self.next_id += 1
            elif k < 0.5:
                b = rng.choice(sorted(self.alive))
                if rng.random() < 0.3:                 # only the port changes
                    h, p = self.alive[b]
                    cand = (h, p + 100)
                    self.alive[b] = cand if cand not in self.alive.values() else self.free_addr()
                else:
                    self.alive[b] = self.free_addr()
            elif k < 0.7 and self.topics:
                t = rng.choice(sorted(self.topics))
                ls = self.topics[t]
                for i in range(len(ls)):
                    if rng.random() < 0.5:
                        ls[i] = self.pick_leader()
            elif k < 0.85 and self.topics:
                t = rng.choice(sorted(self.topics))
                ls = self.topics[t]
                if rng.random() < 0.5:
                    ls.extend(self.pick_leader() for _ in range(rng.randint(1, 3)))
                else:
                    lo = 0 if rng.random() < 0.2 else 1
                    del ls[rng.randint(min(lo, len(ls)), max(lo, len(ls) - 1)):]
            elif k < 0.95:
                self.add_topic()
            elif len(self.topics) > 1:
                del self.topics[rng.choice(sorted(self.topics))]

    def response(self, want):
        """want: None/[] = all topics"""
        rng = self.rng
        names = sorted(self.topics) if not want else list(want)
        rng.shuffle(names)
        topics = []
        for t in names:
            if t in self.topics:
                ps = [{"error": 0 if l in self.alive else 5, "id": i, "leader": l,
                       "replicas": rng.sample(sorted(self.alive), rng.randint(0, len(self.alive))),
                       "isr": rng.sample(sorted(self.alive), rng.randint(0, len(self.alive)))}
                      for i, l in enumerate(self.topics[t])]
                rng.shuffle(ps)
                topics.append({"error": 0, "topic": t, "partitions": ps})
            else:
                topics.append({"error": 3, "topic": t, "partitions": []})
        bs = [{"node_id": n, "host": h, "port": p} for n, (h, p) in self.alive.items()]
        rng.shuffle(bs)
        return {"brokers": bs, "topics": topics}


def probe_fetch(m, rng):
    """a fetch over every partition of the merged view (with and without leader) plus entries outside it"""
    fps = [fp(t, i, 0) for (t, i) in m.all_parts()]
    for t in sorted(m.view):
        if rng.random() < 0.5:
            fps.append(fp(t, len(m.view[t]), 0))
    fps.append(fp(b"ghost", 0, 0))
    rng.shuffle(fps)
    return T("fetch_messages", [fps])


def final_cluster(m):
    """a reference cluster that agrees with the LAST merged view, so that its answers carry no error: one node per address"""
    rep = {}
    for n in sorted(m.known):
        rep.setdefault(m.known[n], n)
    brokers = {}
    for h, n in rep.items():
        host, port = h.rsplit(b":", 1)
        brokers[n] = (host, int(port))
    topics = {}
    for t, ls in m.view.items():
        topics[t] = [rep[m.known[l]] if l in m.known else -1 for l in ls]
    if not brokers:
        brokers = {1: (b"h1", 9091)}
    return {"brokers": brokers, "topics": topics, "logs": {}}


def history_case(rng, nops=None):
    w = World(rng)
    ops = [T("client_new", [[BOOT]]), T("set_retry_max_attempts", [3])]
    probes = []
    nops = nops or rng.randint(1, 8)
    nloads = 0
    kinds = []
    for k in range(nops):
        r = rng.random()
        if k == 0 and r < 0.9:
            r = rng.random() * 0.85
        if r < 0.3:
            op, want = T("load_metadata_all"), None
        elif r < 0.85:
            names = sorted(w.topics)
            want = rng.sample(names, rng.randint(0, len(names)))
            if rng.random() < 0.2:
                want.append(b"nx%d" % rng.randint(0, 1))
            rng.shuffle(want)
            op = T("load_metadata", [want])
        else:
            op, want = T("reset_metadata"), None
        kinds.append(op.name if op.name != "load_metadata" or want else "load_metadata_empty_list")
        if op.name == "reset_metadata":
            ops.append(op)
        else:
            nloads += 1
            ops.append({"op": op, "mutate": {"kind": "body", "api": "metadata", "body": w.response(want)}})
        case_so_far = {"ops": ops, "cluster": None}
        m = replay_merge(case_so_far, len(ops) - 1)
        ops.append(T("topics"))
        ops.append(probe_fetch(m, rng))
        w.evolve()
    m = replay_merge({"ops": ops, "cluster": None}, len(ops) - 1)
    names = sorted(m.view) + [b"ghost"]
    rng.shuffle(names)
    ops.append(T("fetch_offsets", [names, T(rng.choice(["latest", "earliest"]))]))
    ops.append(T("list_offsets", [names, T("latest")]))
    led = sorted(m.routes())
    if led:
        msgs = [pm(t, i, None, b"v-%s-%d" % (t, i)) for (t, i) in led]
        if rng.random() < 0.5:
            msgs += [pm(t, i, b"k", b"w-%s-%d" % (t, i)) for (t, i) in rng.sample(led, rng.randint(1, len(led)))]
        rng.shuffle(msgs)
        ops.append(T("produce_messages", [1, 1, 0, msgs]))
    leaderless = [tp for tp in m.all_parts() if tp not in m.routes()]
    if leaderless:
        t, i = rng.choice(leaderless)
        msgs = [pm(a, b, None, b"x") for (a, b) in (rng.sample(led, min(len(led), 2)) if led else [])] + [pm(t, i, None, b"y")]
        rng.shuffle(msgs)
        ops.append(T("produce_messages", [1, 1, 0, msgs]))
    ops.append(T("topics"))
    return {"cluster": final_cluster(m), "ops": ops, "meta": {"kind": "history", "nops": nops, "nloads": nloads, "hist": kinds}}


BOOT_POOLS = [[b"b1:9092", b"b2:9093", b"x1:1", b"x2:2"], [b"x1:1", b"x2:2", b"b2:9093", b"b1:9092"]]


def bootstrap_case(rng, hosts, unreachable):
    spec = {"brokers": {1: (b"b1", 9092), 2: (b"b2", 9093)},
            "topics": {b"ta": [1, 2, -1], b"tb": [2]}, "logs": {}}
    ops = [T("client_new", [list(hosts)]), T("load_metadata_all"), T("topics")]
    u2 = [h for h in sorted(set(hosts)) if rng.random() < 0.5]
    ops += [{"op": T(rng.choice(["load_metadata_all", "load_metadata_all", "load_metadata"]), []), "unreachable": u2}, T("topics")]
    if ops[3]["op"].name == "load_metadata":
        ops[3]["op"] = T("load_metadata", [[b"tb"]])
    return {"cluster": spec, "ops": ops, "unreachable": list(unreachable),
            "meta": {"kind": "bootstrap", "hosts": list(hosts), "u1": list(unreachable), "u2": u2}}


def write_fails_case(rng, full, nfirst):
    """the first bootstrap host(s) were reachable for an earlier load (their connections are pooled) but the stream now refuses the
    write of the metadata request: such a host cannot be reached any more, the next one is asked"""
    spec = {"brokers": {1: (b"b1", 9092), 2: (b"b2", 9093)},
            "topics": {b"ta": [1, 2, -1], b"tb": [2]}, "logs": {}}
    hosts = [b"b1:9092", b"b2:9093"] if rng.random() < 0.5 else [b"b2:9093", b"b1:9092"]
    if nfirst == 2:
        hosts = hosts + [b"x9:9"]          # a third host that does not exist: with both real ones failing nothing is reachable
    ops = [T("client_new", [list(hosts)]), T("load_metadata_all"), T("topics")]
    if nfirst == 2:
        # make the second host's connection pooled as well (it leads partitions of both topics)
        ops.append(T("fetch_offsets", [[b"ta", b"tb"], T("latest")]))
    failing = T("load_metadata_all") if full else T("load_metadata", [[b"tb"]])
    ops += [{"op": failing, "plan": {"write": {k: ["fail", rng.choice(["other", "timeout"])] for k in range(nfirst)}}, "write_fails": nfirst,
             "unreachable": [b"x9:9"]},
            T("topics")]
    return {"cluster": spec, "ops": ops, "unreachable": [b"x9:9"],
            "meta": {"kind": "bootstrap", "hosts": list(hosts), "u1": [], "u2": [], "write_fails": nfirst}}


def failed_load_case(rng, hosts, full):
    """a load that fails AFTER an earlier successful one: with an idle time-out of zero every call reconnects, so making every
    bootstrap host unreachable makes the load fail; a full load has then forgotten everything, a named load has changed nothing"""
    spec = {"brokers": {1: (b"b1", 9092), 2: (b"b2", 9093)},
            "topics": {b"ta": [1, 2, -1], b"tb": [2]}, "logs": {}}
    probe = lambda: [T("topics"), T("fetch_offsets", [[b"ta", b"tb"], T("latest")]),
                     T("fetch_messages", [[fp(b"ta", 0, 0), fp(b"tb", 0, 0)]])]
    failing = T("load_metadata_all") if full else T("load_metadata", [[b"tb"]])
    ops = [T("client_new", [list(hosts)]), T("set_connection_idle_timeout", [0, 0]), T("load_metadata_all")] + probe()
    ops += [{"op": failing, "unreachable": sorted(set(hosts))}]
    ops += [{"op": T("topics"), "unreachable": []}] + probe()[1:]
    ops += [T("load_metadata", [[b"ta"]])] + probe()
    return {"cluster": spec, "ops": ops, "unreachable": [],
            "meta": {"kind": "bootstrap", "hosts": list(hosts), "u1": [], "u2": sorted(set(hosts)), "idle0": True, "failed_load": "all" if full else "named"}}


def gen(rng, tier):
    cases = []
    for pool in BOOT_POOLS:
        for n in range(1, 5):
            hosts = pool[:n]
            for k in range(n + 1):
                for u in itertools.combinations(range(n), k):
                    cases.append(bootstrap_case(rng, hosts, [hosts[i] for i in u]))
    for _ in range(10 if tier == "quick" else 60):          # lists with a repeated host
        n = rng.randint(2, 4)
        hosts = [rng.choice(BOOT_POOLS[0]) for _ in range(n)]
        cases.append(bootstrap_case(rng, hosts, [h for h in sorted(set(hosts)) if rng.random() < 0.5]))
    for hosts in ([b"b1:9092"], [b"b1:9092", b"b2:9093"], [b"b2:9093", b"b1:9092"], [b"x1:1", b"b2:9093"]):
        for full in (True, False):
            c = failed_load_case(rng, hosts, full)
            if b"x1:1" in hosts:
                c["unreachable"] = [b"x1:1"]
                for it in c["ops"]:
                    if isinstance(it, dict) and it.get("unreachable") == []:
                        it["unreachable"] = [b"x1:1"]
            cases.append(c)
    for k in range(8 if tier == "quick" else 40):
        cases.append(write_fails_case(rng, full=(k % 2 == 0), nfirst=1))
    nh = 1200 if tier == "quick" else 16000
    for k in range(nh):
        cases.append(history_case(rng, nops=1 + k % 8))
    return cases


# ---- oracle ------------------------------------------------------------------------------------------------------------

REQ_API = {"fetch_messages": "fetch", "fetch_offsets": "offsets", "list_offsets": "list_offsets", "produce_messages": "produce"}


def sent(rec, api):
    """[(host, topic, partition)] of every entry of every `api` request of the op + number of requests per host"""
    out, per_host = [], {}
    for h, payload in rec["requests"]:
        try:
            rq = kproto.parse_request(payload)
        except kproto.ProtoError:
            out.append((h, None, None))
            continue
        if rq["api"] != api:
            out.append((h, rq["api"].encode(), None))
            continue
        per_host[h] = per_host.get(h, 0) + 1
        for t in rq["body"]["topics"] or []:
            for p in t["partitions"] or []:
                out.append((h, t["topic"], p["partition"]))
    return out, per_host


def asked(op):
    """the (topic, partition) entries an op asks for; offsets lookups name topics only"""
    if op.name == "fetch_messages":
        return [(x.args[0], x.args[1]) for x in op.args[0]], None
    if op.name == "produce_messages":
        return [(x.args[0], x.args[1]) for x in op.args[3]], None
    return None, list(op.args[0])


def check_routing(i, rec, m, fails):
    op = rec["op"]
    api = REQ_API[op.name]
    routes = m.routes()
    entries, names = asked(op)
    if entries is None:
        want = {tp: h for tp, h in routes.items() if tp[0] in names}
    else:
        want = {tp: routes[tp] for tp in entries if tp in routes}
    leaderless_asked = entries is not None and any(tp not in routes for tp in entries)
    obs, per_host = sent(rec, api)
    if op.name == "produce_messages" and leaderless_asked:
        if rec["impl"] != T("err", [T("kafka", [3])]):
            fails.append("C06 op %d: produce naming a partition without leader must fail with UnknownTopicOrPartition, got %s" % (i, dumps(rec["impl"])[:80]))
        if rec["requests"] or any(e.name == "write" for e in rec["raw_events"]):
            fails.append("C06 op %d: produce naming a partition without leader wrote to the network" % i)
        return
    seen = {}
    for h, t, p in obs:
        if p is None:
            fails.append("C06 op %d (%s): unexpected request %r at %s" % (i, op.name, t, h.decode()))
            continue
        seen[(t, p)] = seen.get((t, p), []) + [h]
    for tp, hs in sorted(seen.items()):
        if tp not in routes:
            fails.append("C06 op %d (%s): %s:%d has no leader in the merged metadata but was sent to %s" % (i, op.name, tp[0].decode(), tp[1], hs[0].decode()))
        elif tp not in want:
            fails.append("C06 op %d (%s): %s:%d was not asked for but sent to %s" % (i, op.name, tp[0].decode(), tp[1], hs[0].decode()))
        elif hs != [want[tp]] * len(hs):
            fails.append("C06 op %d (%s): %s:%d must go to its leader at %s, went to %s" % (i, op.name, tp[0].decode(), tp[1], want[tp].decode(), b",".join(hs).decode()))
        elif len(hs) != 1:
            fails.append("C06 op %d (%s): %s:%d sent %d times" % (i, op.name, tp[0].decode(), tp[1], len(hs)))
    for h, n in per_host.items():
        if n != 1:
            fails.append("C06 op %d (%s): %d requests to %s in one call" % (i, op.name, n, h.decode()))
    if rec["impl"].name != "ok":
        fails.append("C06 op %d (%s): call failed: %s" % (i, op.name, dumps(rec["impl"])[:100]))
    else:
        for tp in sorted(want):
            if tp not in seen:
                fails.append("C06 op %d (%s): %s:%d has leader %s but was not sent" % (i, op.name, tp[0].decode(), tp[1], want[tp].decode()))


def connects(rec):
    return [(e.args[0], e.args[1]) for e in rec["raw_events"] if e.name == "connect"]


def oracle(case, recs, cl):
    fails = []
    if recs and recs[-1]["impl"].name in ("panic", "hang", "abort", "harness_error"):
        return ["C06: op %d crashed: %s" % (len(recs) - 1, dumps(recs[-1]["impl"])[:120])]
    if len(recs) < len(case["ops"]):
        return ["C06: case aborted early"]
    boot = case["meta"]["kind"] == "bootstrap"
    hosts = None
    connected = set()
    unreachable = set(case.get("unreachable", ()))
    for i, rec in enumerate(recs):
        item = case["ops"][i]
        op = rec["op"]
        if isinstance(item, dict) and "unreachable" in item:
            unreachable = set(item["unreachable"])
        if op.name == "client_new":
            hosts = list(op.args[0])
            connected = set()
        elif op.name in ("load_metadata_all", "load_metadata"):
            # metadata comes from the first bootstrap host that can be reached; NoHostReachable iff none can
            if case["meta"].get("idle0"):
                connected = set()       # idle time-out zero: every call connects anew
            first = None
            exp_conn = []
            wf = item.get("write_fails", 0) if isinstance(item, dict) else 0      # writes refused by the stream, in order
            for h in hosts:
                if h in connected:
                    if wf:
                        wf -= 1
                        continue
                    first = h
                    break
                exp_conn.append((h, 0 if h in unreachable else 1))
                if h not in unreachable:
                    if wf:
                        wf -= 1
                        connected.add(h)
                        continue
                    first = h
                    break
            got = [(h, kproto.parse_request(p)["api"]) for h, p in rec["requests"]]
            if first is None:
                if rec["impl"] != T("err", [T("no_host_reachable")]):
                    fails.append("C06 op %d: no bootstrap host reachable, expected NoHostReachable, got %s" % (i, dumps(rec["impl"])[:80]))
                if got:
                    fails.append("C06 op %d: no bootstrap host reachable but a request was received" % i)
            else:
                if rec["impl"].name != "ok":
                    fails.append("C06 op %d: bootstrap host %s is reachable but the load returned %s" % (i, first.decode(), dumps(rec["impl"])[:80]))
                if got != [(first, "metadata")]:
                    fails.append("C06 op %d: metadata must be requested once from the first reachable host %s; requests seen: %s" % (
                        i, first.decode(), [(h.decode(), a) for h, a in got]))
                connected.add(first)
            if connects(rec) != exp_conn:
                fails.append("C06 op %d: bootstrap connection attempts %s, expected %s" % (i, connects(rec), exp_conn))
            for h, ok in connects(rec):
                if ok:
                    connected.add(h)
        elif op.name == "topics":
            m = replay_merge(case, i, recs)
            exp = m.topics_val()
            got = sorted(rec["impl"].args[0], key=lambda t: t.args[0]) if rec["impl"].name == "ok" else None
            if got is None or dumps(got) != dumps(exp):
                fails.append("C06 op %d: topics() differs from the merge of the responses: expected %s got %s" % (i, dumps(exp)[:300], dumps(rec["impl"])[:300]))
        elif op.name in REQ_API:
            m = replay_merge(case, i, recs)
            check_routing(i, rec, m, fails)
            for h, ok in connects(rec):
                if ok:
                    connected.add(h)
        if len(fails) >= 6:
            break
    return fails[:6]


def nontrivial(case, recs):
    if len(recs) < len(case["ops"]):
        return False
    meta = case["meta"]
    if meta["kind"] == "bootstrap":
        hosts, u = meta["hosts"], set(meta["u1"])
        reach = [h not in u for h in hosts]
        return (not any(reach)) or (True in reach and reach.index(True) > 0)
    if meta["nloads"] < 2:
        return False
    m = replay_merge(case, len(case["ops"]) - 1, recs)
    return bool(m.routes())


def stats(case, recs):
    meta = case["meta"]
    s = {"kind:" + meta["kind"]: 1}
    if meta["kind"] == "bootstrap":
        s["boot:hosts=%d" % len(meta["hosts"])] = 1
        s["boot:unreachable=%d" % len(meta["u1"])] = 1
        return s
    s["history:len=%d" % meta["nops"]] = 1
    for rec in recs:
        if rec["op"].name in REQ_API:
            obs, per_host = sent(rec, REQ_API[rec["op"].name])
            s["routed_entries:" + rec["op"].name] = s.get("routed_entries:" + rec["op"].name, 0) + len(obs)
            s["brokers_addressed_in_one_call=%d" % min(len(per_host), 3)] = s.get("brokers_addressed_in_one_call=%d" % min(len(per_host), 3), 0) + 1
            if rec["op"].name == "produce_messages" and rec["impl"].name == "err":
                s["produce_to_leaderless_rejected"] = s.get("produce_to_leaderless_rejected", 0) + 1
    for k in meta["hist"]:
        s["histop:" + k] = s.get("histop:" + k, 0) + 1
    # what the responses of the history did, read off the bodies
    known, seen_t = {}, {}
    for item in case["ops"]:
        op = op_of(item)
        if op.name in ("reset_metadata", "load_metadata_all"):
            pass
        if isinstance(item, dict) and item.get("mutate"):
            body = item["mutate"]["body"]
            ids = set()
            for b in body["brokers"]:
                ids.add(b["node_id"])
                a = hp(b["host"], b["port"])
                if b["node_id"] in known and known[b["node_id"]] != a:
                    s["resp:broker_moved"] = s.get("resp:broker_moved", 0) + 1
                if b["node_id"] not in known:
                    if a in known.values():
                        s["resp:address_taken_over_by_new_id"] = s.get("resp:address_taken_over_by_new_id", 0) + 1
                    if known:
                        s["resp:broker_added"] = s.get("resp:broker_added", 0) + 1
                known[b["node_id"]] = a
            if any(n not in ids for n in known):
                s["resp:broker_missing_from_list"] = s.get("resp:broker_missing_from_list", 0) + 1
            for t in body["topics"]:
                n = len(t["partitions"])
                if t["topic"] in seen_t:
                    if n > seen_t[t["topic"]]:
                        s["resp:partitions_grown"] = s.get("resp:partitions_grown", 0) + 1
                    if n < seen_t[t["topic"]]:
                        s["resp:partitions_shrunk"] = s.get("resp:partitions_shrunk", 0) + 1
                elif seen_t:
                    s["resp:topic_added"] = s.get("resp:topic_added", 0) + 1
                seen_t[t["topic"]] = n
                if [p["id"] for p in t["partitions"]] != list(range(n)):
                    s["resp:partitions_out_of_order"] = s.get("resp:partitions_out_of_order", 0) + 1
                for p in t["partitions"]:
                    if p["leader"] == -1:
                        s["resp:leader_-1"] = s.get("resp:leader_-1", 0) + 1
                    elif p["leader"] not in ids:
                        s["resp:leader_not_in_list"] = s.get("resp:leader_not_in_list", 0) + 1
    return s
