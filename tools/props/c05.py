"""C05: produce sends each record exactly once to its partition's leader, order kept; confirmations = broker results."""
import kproto
from val import T, dumps
from props import common
from props.common import brokers, expected_code, pm, rand_bytes
from props.c12 import xxh32

SLICE = "KafkaClient::internal_produce_messages / ProduceRequest::add / __produce_messages, Producer::send_all / send"
RULE = ("random clusters (1-3 brokers, 1-3 topics x 1-6 partitions, ~12% leaderless, random initial logs, 15% of the cases with a broker error code injected "
        "on one partition); per case one client (compression 0/1/2) driven through produce_messages, or one Producer (from_client or from_hosts; acks, ack "
        "timeout, compression from the builder or defaults) driven through send_all / send; 1-4 calls per case with acks in {0,1,-1} and random timeouts; "
        "batches of 1-13 records with unique values: explicit partitions with many repeats of the same partition interleaved with others, unspecified "
        "partitions keyed / keyless (Producer), keys absent / empty / random, and in ~25% of the batches one record naming an unknown topic, a partition id "
        "out of range or negative, or a partition without leader (placed first, last or in the middle); every record is traced by its value through the "
        "produce requests the reference brokers decoded; non-trivial = a case with an accepted batch that put >= 2 records into one partition and addressed "
        ">= 2 partitions")
ASSUMPTIONS = ["the partition of an unspecified-partition record is whatever C12 allows (keyed: XXH32 mod count, keyless: any partition with a leader); "
               "C05 only needs it to decide whether the batch must be rejected",
               "the configured timeout is the Duration in whole milliseconds (secs*1000 + nanos/10^6)"]
EXHAUSTIVE = False

I32MAX, I32MIN = 2 ** 31 - 1, -2 ** 31


def host_of(spec, node):
    h, p = spec["brokers"][node]
    return h + b":" + str(p).encode()


def make_cluster(rng):
    nb = rng.choice([1, 2, 2, 3, 3, 3])
    topics, logs = {}, {}
    for t in [b"alpha", b"beta", b"g"][:rng.randint(1, 3)]:
        n = rng.choice([1, 2, 3, 4, 6, 6])
        dead = rng.choice([0.12] * 8 + [0.5, 1.0])       # share of leaderless partitions; 1.0: none is available
        topics[t] = [(-1 if rng.random() < dead else rng.randint(1, nb)) for _ in range(n)]
        for p in range(n):
            if rng.random() < 0.5:
                start = rng.choice([0, 0, 3, 1000])
                logs[(t, p)] = [("plain", start + o, None, b"old%d" % o) for o in range(rng.randint(1, 4))]
    spec = {"brokers": brokers(nb), "topics": topics, "logs": logs}
    common.maybe_order(rng, spec)
    if rng.random() < 0.15:
        t = rng.choice(sorted(topics))
        led = [p for p, l in enumerate(topics[t]) if l >= 0]
        if led:
            spec["inject"] = [("produce", t, rng.choice(led), rng.choice([1, 2, 5, 6, 7, 10, 14, 19, 20, 36, -1]), -1)]
    return spec


def rand_key(rng):
    k = rng.random()
    if k < 0.35:
        return None
    if k < 0.45:
        return b""
    return rand_bytes(rng, 1, rng.choice([1, 2, 4, 9]))


class Serial:
    def __init__(self):
        self.n = 0

    def value(self, rng):
        self.n += 1
        return b"v%05d" % self.n + b"." * rng.choice([0, 0, 0, 1, 7, 40])


def rand_batch(rng, spec, ser, producer):
    """-> list of (topic, partition, key, value); partition -1 (Producer only) = unspecified"""
    topics = spec["topics"]
    names = sorted(topics)
    led = [(t, p) for t in names for p, l in enumerate(topics[t]) if l >= 0]
    n = rng.choice([1, 2, 3, 4, 5, 6, 8, 10, 12])
    if rng.random() < 0.06:
        n = rng.randint(33, 90)      # long batches: regrouping by sort or hash shows only beyond a few dozen records
    recs = []
    hot = rng.sample(led, min(len(led), rng.randint(1, 5))) if led else []      # partitions that get repeated records
    for _ in range(n):
        key = rand_key(rng)
        if producer and rng.random() < 0.4:
            t = rng.choice(names)
            recs.append((t, rng.choice([-1, -1, -1, -7, I32MIN]), key, ser.value(rng)))
        elif hot and rng.random() < 0.7:
            t, p = rng.choice(hot)
            recs.append((t, p, key, ser.value(rng)))
        elif led:
            t, p = rng.choice(led)
            recs.append((t, p, key, ser.value(rng)))
        else:
            recs.append((rng.choice(names), 0, key, ser.value(rng)))
    if rng.random() < 0.25:
        k = rng.random()
        t = rng.choice(names)
        if k < 0.35:
            bad = (rng.choice([b"nope", t + b"x", t[:-1] or b"q"]), rng.choice([0, 1]) if not producer else rng.choice([0, -1]))
        elif k < 0.6:
            bad = (t, rng.choice([len(topics[t]), len(topics[t]) + 1, 99, I32MAX]))
        elif k < 0.75 and not producer:
            bad = (t, rng.choice([-1, -2, I32MIN]))
        else:
            ll = [(a, p) for a in names for p, l in enumerate(topics[a]) if l < 0]
            bad = rng.choice(ll) if ll else (t, len(topics[t]))
        pos = rng.choice([0, len(recs), rng.randint(0, len(recs))])
        recs.insert(pos, (bad[0], bad[1], rand_key(rng), ser.value(rng)))
    return recs


def make_case(rng, path):
    spec = make_cluster(rng)
    hs = [host_of(spec, n) for n in sorted(spec["brokers"])]
    ser = Serial()
    comp = rng.choice([0, 1, 2])
    ops = []
    if path == "client":
        ops = [T("client_new", [hs]), T("load_metadata_all"), T("set_retry_max_attempts", [3])]
        if comp or rng.random() < 0.5:
            ops.append(T("set_compression", [comp]))
        for _ in range(rng.randint(1, 4)):
            acks = rng.choice([0, 1, 1, -1])
            secs, nanos = rng.choice([(0, 0), (1, 0), (0, 500_000_000), (0, 1_999_999), (30, 0), (2, 123_456_789), (2_147_483, 647_000_000)])
            msgs = [pm(t, p, k, v) for (t, p, k, v) in rand_batch(rng, spec, ser, False)]
            ops.append(T("produce_messages", [acks, secs, nanos, msgs]))
    else:
        calls = []
        if rng.random() < 0.8:
            calls.append(T("with_required_acks", [rng.choice([0, 1, -1])]))
        if rng.random() < 0.7:
            calls.append(T("with_ack_timeout", list(rng.choice([(0, 0), (1, 0), (0, 250_000_000), (5, 999_999), (60, 0)]))))
        if comp or rng.random() < 0.5:
            calls.append(T("with_compression", [comp]))
        if rng.random() < 0.25:
            calls.append(T("with_partitioner"))      # re-installs the default partitioner: every other setting must survive it
        rng.shuffle(calls)
        if rng.random() < 0.2:
            ops = [T("producer_build", [T("from_hosts", [hs]), calls])]
        else:
            ops = [T("client_new", [hs]), T("load_metadata_all"), T("set_retry_max_attempts", [3])]
            if rng.random() < 0.3:
                ops.append(T("set_compression", [rng.choice([0, 1, 2])]))     # inherited by the builder unless overridden
            ops.append(T("producer_build", [T("from_client"), calls]))
        for _ in range(rng.randint(1, 4)):
            if rng.random() < 0.25:
                batch = rand_batch(rng, spec, ser, True)[:1]
                ops.append(T("send", [[T("r", [t, p, k or b"", v]) for (t, p, k, v) in batch]]))
            else:
                ops.append(T("send_all", [[T("r", [t, p, k or b"", v]) for (t, p, k, v) in rand_batch(rng, spec, ser, True)]]))
    return {"cluster": spec, "ops": ops, "meta": {"path": path, "compression": comp}}


def make_unreachable_case(rng):
    """a call that fails because one of its two brokers refuses the connection, followed by calls that succeed: the confirmations of
    the later calls are the answers to THOSE calls (offsets continue from what the failed call did append)"""
    spec = {"brokers": brokers(2), "topics": {b"alpha": [1, 2, 1], b"beta": [2, 1]}, "logs": {}}
    hs = [host_of(spec, n) for n in sorted(spec["brokers"])]
    ser = Serial()
    acks = rng.choice([1, -1])
    mk = lambda tps: T("produce_messages", [acks, 1, 0, [pm(t, p, None, ser.value(rng)) for (t, p) in tps]])
    both = [(b"alpha", 0), (b"alpha", 1), (b"beta", 0), (b"beta", 1), (b"alpha", 0)]
    rng.shuffle(both)
    ops = [T("client_new", [hs[:1]]), T("load_metadata_all"), T("set_retry_max_attempts", [3])]
    if rng.random() < 0.5:
        ops.append(mk([(b"alpha", 0), (b"beta", 1)]))          # broker 1 only (its connection exists since the metadata load)
    ops.append({"op": mk(both), "unreachable": [hs[1]], "expect_fail": True})
    ops.append({"op": mk([(b"alpha", 0), (b"alpha", 2)]), "unreachable": []})
    ops.append(mk(both))
    ops.append(mk([(b"beta", 1)]))
    return {"cluster": spec, "ops": ops, "meta": {"path": "client", "compression": 0, "family": "unreachable_broker"}}


def make_deleted_topic_case(rng):
    """a topic the client knew is deleted in the cluster; after a reload by name (answered with the topic error and no partitions) a
    batch naming it is refused locally and nothing is sent, also when the rest of the batch is fine"""
    spec = {"brokers": brokers(2), "topics": {b"alpha": [1, 2]}, "logs": {}}
    hs = [host_of(spec, n) for n in sorted(spec["brokers"])]
    ser = Serial()
    stale = {"brokers": [{"node_id": n, "host": h, "port": p} for n, (h, p) in sorted(spec["brokers"].items())],
             "topics": [{"error": 0, "topic": t, "partitions": [{"error": 0, "id": i, "leader": l, "replicas": [], "isr": []} for i, l in enumerate(ls)]}
                        for t, ls in (("alpha", [1, 2]), ("gone", [2, 1]))]}
    for t in stale["topics"]:
        t["topic"] = t["topic"].encode()
    acks = rng.choice([1, -1, 0])
    path = rng.choice(["client", "producer"])
    ops = [T("client_new", [hs]), {"op": T("load_metadata_all"), "mutate": {"kind": "body", "api": "metadata", "body": stale}},
           T("set_retry_max_attempts", [3]), T("load_metadata", [[b"gone"]])]
    batch = [(b"alpha", 0), (b"gone", rng.choice([0, 1])), (b"alpha", 1)]
    rng.shuffle(batch)
    if path == "client":
        ops.append(T("produce_messages", [acks, 1, 0, [pm(t, p, None, ser.value(rng)) for (t, p) in batch]]))
        ops.append(T("produce_messages", [acks, 1, 0, [pm(b"alpha", 0, None, ser.value(rng))]]))
    else:
        ops.append(T("producer_build", [T("from_client"), [T("with_required_acks", [acks])]]))
        ops.append(T("send_all", [[T("r", [t, p if rng.random() < 0.7 else -1, b"", ser.value(rng)]) for (t, p) in batch]]))
        ops.append(T("send_all", [[T("r", [b"alpha", 1, b"", ser.value(rng)])]]))
    return {"cluster": spec, "ops": ops, "meta": {"path": path, "compression": 0, "family": "deleted_topic"}}


def gen(rng, tier):
    n = 450 if tier == "quick" else 15000
    return ([make_case(rng, "client") for _ in range(n)] + [make_case(rng, "producer") for _ in range(n)] +
            [make_unreachable_case(rng) for _ in range(16 if tier == "quick" else 300)] +
            [make_deleted_topic_case(rng) for _ in range(16 if tier == "quick" else 300)])


# ---- oracle ------------------------------------------------------------------------------------------------------------

UNKNOWN = T("err", [T("kafka", [3])])
CALLS = ("produce_messages", "send_all", "send")


def opt(v):
    return None if v.name == "none" else v.args[0]


def batch_of(op):
    """-> [(topic, partition, wire key, value, unspecified?)] as the property reads the call"""
    if op.name == "produce_messages":
        return [(x.args[0], x.args[1], opt(x.args[2]), opt(x.args[3]), False) for x in op.args[3]]
    return [(x.args[0], x.args[1], x.args[2] or None, x.args[3] or None, x.args[1] < 0) for x in op.args[0]]


def destination(spec, rec):
    """-> ('at', topic, partition) | ('any', topic) | None (no destination: the batch must be rejected)"""
    t, p, key, _, unspec = rec
    ls = spec["topics"].get(t)
    if ls is None:
        return None
    if not unspec:
        return ("at", t, p) if 0 <= p < len(ls) and ls[p] >= 0 else None
    if key:
        if not ls:
            return None
        q = xxh32(key) % len(ls)
        return ("at", t, q) if ls[q] >= 0 else None
    return ("any", t) if any(l >= 0 for l in ls) else None


def config_of(case, i):
    """(acks, timeout ms) in force for the call at op i"""
    op = op_of(case["ops"][i])
    if op.name == "produce_messages":
        return op.args[0], op.args[1] * 1000 + op.args[2] // 1_000_000
    acks, ms = 1, 30_000
    for item in case["ops"][:i]:
        o = op_of(item)
        if o.name == "producer_build":
            acks, ms = 1, 30_000
            for c in o.args[1]:
                if c.name == "with_required_acks":
                    acks = c.args[0]
                elif c.name == "with_ack_timeout":
                    ms = c.args[0] * 1000 + c.args[1] // 1_000_000
    return acks, ms


def op_of(item):
    return item["op"] if isinstance(item, dict) else item


def injected(spec, t, p):
    for api, it, ip, code, uses in spec.get("inject", []):
        if api == "produce" and it == t and ip == p and code != 0:
            return expected_code(code)
    return None


def oracle(case, recs, cl):
    fails = []
    spec = case["cluster"]
    if recs and recs[-1]["impl"].name in ("panic", "hang", "abort", "harness_error"):
        return ["C05: op %d (%s) crashed: %s" % (len(recs) - 1, recs[-1]["op"].name, dumps(recs[-1]["impl"])[:120])]
    if len(recs) < len(case["ops"]):
        return ["C05: case aborted early"]
    end = {}
    for (t, p), entries in spec.get("logs", {}).items():
        flat = kproto.flatten_entries(entries)
        if flat:
            end[(t, p)] = flat[-1][0] + 1
    for i, rec in enumerate(recs):
        op, res = rec["op"], rec["impl"]
        if op.name not in CALLS:
            if res.name != "ok":
                fails.append("C05 op %d (%s): setup failed: %s" % (i, op.name, dumps(res)[:80]))
            continue
        batch = batch_of(op)
        acks, ms = config_of(case, i)

        def bad(what):
            fails.append("C05 op %d (%s): %s" % (i, op.name, what))

        dests = [destination(spec, r) for r in batch]
        if any(d is None for d in dests):
            # an unknown topic or partition anywhere in the batch: fails, and no byte is sent
            if res != UNKNOWN:
                bad("a record has no known destination, expected UnknownTopicOrPartition, got %s" % dumps(res)[:80])
            if rec["requests"] or any(e.name == "write" for e in rec["raw_events"]):
                bad("the rejected batch wrote to the network")
            continue
        # ---- the requests the brokers received
        per_host = {}
        placed = {}          # value -> [(host, topic, partition, key)]
        sets = {}            # (topic, partition) -> [values in wire order]
        for h, payload in rec["requests"]:
            try:
                rq = kproto.parse_request(payload)
            except kproto.ProtoError as e:
                bad("unparsable request to %s: %s" % (h.decode(), e))
                continue
            if rq["api"] != "produce":
                bad("unexpected %s request during a produce call" % rq["api"])
                continue
            per_host[h] = per_host.get(h, 0) + 1
            b = rq["body"]
            if b["acks"] != acks or b["timeout"] != ms:
                bad("request carries acks=%d timeout=%d, configured acks=%d timeout=%d" % (b["acks"], b["timeout"], acks, ms))
            tnames = [t["topic"] for t in b["topics"] or []]
            if len(set(tnames)) != len(tnames):
                bad("a topic is listed twice in one request: %s" % tnames)
            for t in b["topics"] or []:
                ps = [p["partition"] for p in t["partitions"] or []]
                if len(set(ps)) != len(ps):
                    bad("%s: more than one message set for a partition in one request: %s" % (t["topic"].decode(), ps))
                for p in t["partitions"] or []:
                    try:
                        msgs = kproto.decode_message_set_deep(p["message_set"] or b"")
                    except kproto.ProtoError as e:
                        bad("message set of %s:%d does not decode: %s" % (t["topic"].decode(), p["partition"], e))
                        continue
                    if not msgs:
                        bad("empty message set for %s:%d" % (t["topic"].decode(), p["partition"]))
                    for (_, k, v) in msgs:
                        placed.setdefault(v, []).append((h, t["topic"], p["partition"], k))
                        sets.setdefault((t["topic"], p["partition"]), []).append(v)
        for h, n in per_host.items():
            if n != 1:
                bad("%d requests to broker %s in one call" % (n, h.decode()))
        item = case["ops"][i]
        if isinstance(item, dict) and item.get("expect_fail"):
            # one of the brokers involved cannot be reached during this call: it fails; what did reach a broker was appended there
            for tp, vs in sets.items():
                end[tp] = end.get(tp, 0) + len(vs)
            if res.name == "ok":
                bad("a leader of the batch refused the connection but the call returned %s" % dumps(res)[:80])
            continue
        # every record exactly once, in the message set of its partition, at that partition's leader
        where = {}
        values = set()
        for r, d in zip(batch, dests):
            t, p, key, v, _ = r
            values.add(v)
            got = placed.get(v, [])
            if len(got) != 1:
                bad("record %r appears %d times in the requests" % (v, len(got)))
                continue
            h, gt, gp, gk = got[0]
            where[v] = (gt, gp)
            ls = spec["topics"].get(gt)
            if gt != t or (d[0] == "at" and gp != d[2]):
                bad("record %r for %s:%s was put into %s:%d" % (v, t.decode(), d[2] if d[0] == "at" else "any", gt.decode(), gp))
                continue
            if ls is None or not (0 <= gp < len(ls)) or ls[gp] < 0:
                bad("record %r sent to %s:%d which has no leader" % (v, gt.decode(), gp))
                continue
            if h != host_of(spec, ls[gp]):
                bad("record %r for %s:%d went to %s, the leader is %s" % (v, gt.decode(), gp, h.decode(), host_of(spec, ls[gp]).decode()))
            if gk != key:
                bad("record %r: key %r arrived as %r" % (v, key, gk))
        for v in placed:
            if v not in values:
                bad("a record with value %r was sent that is not part of the batch" % (v,))
        # relative order per partition
        for tp, vs in sets.items():
            want = [r[3] for r in batch if where.get(r[3]) == tp]
            if [v for v in vs if v in values] != want:
                bad("records of %s:%d arrived in order %s, given in order %s" % (tp[0].decode(), tp[1], vs[:6], want[:6]))
        # one request per involved broker, no other broker
        involved = set(host_of(spec, spec["topics"][t][p]) for (t, p) in set(where.values()) if t in spec["topics"] and 0 <= p < len(spec["topics"][t]) and spec["topics"][t][p] >= 0)
        if set(per_host) != involved:
            bad("requests went to %s, the leaders involved are %s" % (sorted(h.decode() for h in per_host), sorted(h.decode() for h in involved)))
        # ---- confirmations
        exp = []              # (topic, partition, result) per partition entry of every broker response
        for tp in sets:
            code = injected(spec, *tp)
            if code is not None:
                exp.append((tp[0], tp[1], T("err", [code])))
            else:
                exp.append((tp[0], tp[1], T("ok", [end.get(tp, 0)])))
                end[tp] = end.get(tp, 0) + len(sets[tp])
        reads = [e for e in rec["raw_events"] if e.name == "read"]
        if acks == 0:
            if reads:
                bad("acks=0 but the client read from the network")
            if res != T("ok", [[]]):
                bad("acks=0 must return no confirmations, got %s" % dumps(res)[:100])
            continue
        if op.name == "send":
            want = T("ok", [[]]) if exp and exp[0][2].name == "ok" else T("err", [T("kafka", [exp[0][2].args[0]])]) if exp else None
            if want is not None and res != want:
                bad("send must report the broker's result %s, got %s" % (dumps(want), dumps(res)[:80]))
            continue
        if res.name != "ok":
            bad("accepted batch failed: %s" % dumps(res)[:100])
            continue
        got = sorted(dumps(T("c", [c.args[0], pc.args[0], pc.args[1]])) for c in res.args[0] for pc in c.args[1])
        if got != sorted(dumps(T("c", list(e))) for e in exp):
            bad("confirmations %s differ from the per-partition results expected from the logs %s" % (got[:6], sorted(dumps(T("c", list(e))) for e in exp)[:6]))
        # ... and they are exactly what the brokers answered, response by response
        answered = []
        for reply in rec["replies"]:
            if reply is None:
                continue
            try:
                _, body = kproto.parse_response("produce", 0, reply)
            except kproto.ProtoError:
                continue
            for t in body["topics"] or []:
                answered.append(dumps(T("confirm", [t["topic"], [T("pc", [p["partition"], T("ok", [p["offset"]]) if p["error"] == 0 else
                                                                              T("err", [expected_code(p["error"])])]) for p in t["partitions"] or []]])))
        if sorted(dumps(c) for c in res.args[0]) != sorted(answered):
            bad("confirmations are not the multiset of the brokers' per-topic answers: %s vs %s" % (sorted(dumps(c) for c in res.args[0])[:4], sorted(answered)[:4]))
        if len(fails) >= 6:
            break
    return fails[:6]


def _accepted_calls(case, recs):
    out = []
    for rec in recs:
        if rec["op"].name in CALLS:
            batch = batch_of(rec["op"])
            if all(destination(case["cluster"], r) is not None for r in batch):
                out.append((rec, batch))
    return out


def nontrivial(case, recs):
    if len(recs) < len(case["ops"]):
        return False
    for rec, batch in _accepted_calls(case, recs):
        per = {}
        for h, payload in rec["requests"]:
            try:
                rq = kproto.parse_request(payload)
            except kproto.ProtoError:
                continue
            if rq["api"] != "produce":
                continue
            for t in rq["body"]["topics"] or []:
                for p in t["partitions"] or []:
                    try:
                        per[(t["topic"], p["partition"])] = len(kproto.decode_message_set_deep(p["message_set"] or b""))
                    except kproto.ProtoError:
                        pass
        if len(per) >= 2 and max(per.values()) >= 2:
            return True
    return False


def stats(case, recs):
    s = {"path:" + case["meta"]["path"]: 1, "brokers:%d" % len(case["cluster"]["brokers"]): 1}
    if case["cluster"].get("inject"):
        s["cluster_with_injected_partition_error"] = 1
    for i, rec in enumerate(recs):
        op = rec["op"]
        if op.name not in CALLS:
            continue
        batch = batch_of(op)
        acks, _ = config_of(case, i)
        ok = all(destination(case["cluster"], r) is not None for r in batch)
        s["call:%s:%s" % (op.name, "accepted" if ok else "must_reject")] = s.get("call:%s:%s" % (op.name, "accepted" if ok else "must_reject"), 0) + 1
        s["acks:%d" % acks] = s.get("acks:%d" % acks, 0) + 1
        for r in batch:
            k = "record:" + ("unspecified_keyed" if r[4] and r[2] else "unspecified_keyless" if r[4] else "explicit")
            s[k] = s.get(k, 0) + 1
        tps = [(r[0], r[1]) for r in batch if not r[4]]
        if len(set(tps)) < len(tps):
            s["batch_with_repeated_partition"] = s.get("batch_with_repeated_partition", 0) + 1
        hosts = set(h for h, _ in rec["requests"])
        s["brokers_in_call:%d" % len(hosts)] = s.get("brokers_in_call:%d" % len(hosts), 0) + 1
        for h, payload in rec["requests"]:
            try:
                rq = kproto.parse_request(payload)
                for t in rq["body"]["topics"] or []:
                    for p in t["partitions"] or []:
                        top = kproto.parse_message_set(p["message_set"] or b"")
                        c = top[0]["attr"] & 7 if top else 0
                        s["wire_codec:%d" % c] = s.get("wire_codec:%d" % c, 0) + 1
            except (kproto.ProtoError, KeyError, TypeError):
                pass
    return s
