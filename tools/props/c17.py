"""C17: oversized messages are delivered by bounded retries or reported, never stall."""
import kproto
from val import T, dumps
from props.common import boot_ops, brokers, rand_bytes
from props.c01 import Tracker, entry_size, fetch_replies, fetch_requests, gen_log, poll_sets, view

SLICE = "Consumer::poll retry path (FetchState.max_bytes doubling up to retry_max_bytes_limit, retry_partitions queue, MessageSizeTooLarge)"
RULE = ("grid over (entry size S relative to fetch size f) x (retry limit L relative to f and S): S in {<f, =f, f+1, 2f-1, 2f, 2f+1, 3f, 4f, "
        "4f+1, 5f+7, 8f+3, 11f}, L in {not set, 0, 1, f-1, f, f+1, 2f-1, 2f, last doubling step below S + 1, S-1, S, S+1, between S and 2S, "
        "1 MiB, 2^31-1}, f in 100..400, S exact to the byte (serialized entry incl. the 12-byte header; plain entries, some snappy/gzip wrapper "
        "entries); per grid point 3 (thorough: 12) random layouts: single-partition consumer or 1-3 further partitions (same/other topic, 1-2 "
        "brokers, plain or wrapper logs, some empty), large entry first / in the middle / last (0-4 small entries before, 0-3 after), sometimes "
        "two large entries in one log or two stuck partitions; B polls with B = 2*(max entries+2) + doubling steps + slack; plus the "
        "i32-overflow family: f in {2^30-1, 2^30, 2^30+1, 2^31-2} with L in {2^31-2, 2^31-1}, single- and two-partition consumers, debug and "
        "release profile, replies replaced by an empty set with high-watermark > offset; non-trivial = some partition answered with no "
        "complete entry below its high-watermark (a stall) at least once")
ASSUMPTIONS = ["the reference broker cuts the raw log bytes at max_bytes, so an entry larger than the fetch size arrives as an incomplete entry "
               "(empty set) with high-watermark > offset",
               "a retry limit that is not larger than the fetch size disables retrying (documented on Builder::with_retry_max_bytes_limit); "
               "'never above the limit' is then read as 'never above the fetch size'"]
EXHAUSTIVE = False

I32MAX = 2 ** 31 - 1
S_RELS = ["<f", "=f", "f+1", "2f-1", "2f", "2f+1", "3f", "4f", "4f+1", "5f+7", "8f+3", "11f"]
L_RELS = ["unset", "0", "1", "f-1", "f", "f+1", "2f-1", "2f", "capstep", "S-1", "S", "S+1", "S..2S", "1MiB", "max"]


def size_for(rel, f, rng):
    return {"<f": f - rng.randint(1, 40), "=f": f, "f+1": f + 1, "2f-1": 2 * f - 1, "2f": 2 * f, "2f+1": 2 * f + 1, "3f": 3 * f,
            "4f": 4 * f, "4f+1": 4 * f + 1, "5f+7": 5 * f + 7, "8f+3": 8 * f + 3, "11f": 11 * f}[rel]


def limit_for(rel, f, S, rng):
    if rel == "capstep":
        # the last doubling step that is still below S, plus one: the cap sits just above a step but below the entry
        m = f
        while 2 * m < S:
            m *= 2
        return min(m + 1, max(S - 1, 1))
    return {"unset": None, "0": 0, "1": 1, "f-1": f - 1, "f": f, "f+1": f + 1, "2f-1": 2 * f - 1, "2f": 2 * f, "S-1": S - 1, "S": S,
            "S+1": S + 1, "S..2S": S + rng.randint(2, max(2, S - 1)), "1MiB": 1 << 20, "max": I32MAX}[rel]


def big_entry(rng, off, S, tag, style):
    """an entry whose serialized length is exactly S (plain) or close to S (wrapper)"""
    k = None if rng.random() < 0.5 else rand_bytes(rng, 1, 4)
    vlen = S - 26 - (len(k) if k else 0)
    v = (tag + b"#%d.BIG." % off + rand_bytes(rng, vlen, vlen))[:vlen] if vlen > 0 else b""
    e = ("plain", off, k, v)
    if style == "plain":
        return e
    codec = style
    inner = [("plain", off, k, v)]
    w = ("wrap", codec, off, inner)
    # shrink / grow the value until the wrapper has the wanted size (snappy: literal only, so the size moves in steps of one)
    for _ in range(200):
        d = entry_size(w) - S
        if d == 0:
            break
        vlen = max(0, len(inner[0][3]) - d)
        v = (tag + b"#%d.BIG." % off + rand_bytes(rng, vlen, vlen))[:vlen]
        inner = [("plain", off, k, v)]
        w = ("wrap", codec, off, inner)
    return w


def stuck_log(rng, tag, S_list, f, style, start):
    """small entries around large ones; every small entry is <= f"""
    off, entries = start, []
    nb_ = rng.choice([0, 0, 1, 2, 4])
    for bi, S in enumerate(S_list):
        small = gen_log(rng, tag, nb_, "plain" if style == "plain" else "wrap", start=off, maxval=12, gaps=rng.random() < 0.5)
        entries += small
        if small:
            off = kproto.flatten_entries(small)[-1][0] + 1
        if rng.random() < 0.3:
            off += rng.randint(1, 3)
        entries.append(big_entry(rng, off, S, tag, style))
        off += 1
        nb_ = rng.choice([0, 1, 3])
    tail = gen_log(rng, tag, rng.choice([0, 0, 1, 3]), "plain" if style == "plain" else "wrap", start=off, maxval=12, gaps=False)
    return entries + tail


def doubling_steps(f, L, S):
    """number of stalls before the entry is delivered or the size cannot grow any more"""
    cur, n = f, 0
    while cur < S and L is not None and cur < L:
        cur = min(2 * cur, L)
        n += 1
    return n


def make_case(rng, srel, lrel, profile="debug"):
    f = rng.choice([100, 128, 150, 200, 256, 333, 400])
    S = size_for(srel, f, rng)
    L = limit_for(lrel, f, S, rng)
    single = rng.random() < 0.35
    style = "plain" if rng.random() < 0.8 else rng.choice(["snappy", "gzip"])
    nbk = 1 if single else rng.randint(1, 2)
    t0 = b"big"
    topics = {t0: [rng.randint(1, nbk)]}
    logs = {}
    two_big = rng.random() < 0.12 and S > f
    S_list = [S, size_for(rng.choice(["f+1", "2f", "3f", "4f+1"]), f, rng)] if two_big else [S]
    logs[(t0, 0)] = stuck_log(rng, b"big/0", S_list, f, style, rng.choice([0, 0, 3, 500]))
    if sum(1 for e in logs[(t0, 0)] if entry_size(e) > f) != sum(1 for x in S_list if x > f):
        style = "plain"         # a small wrapper batch came out larger than the fetch size
        logs[(t0, 0)] = stuck_log(rng, b"big/0", S_list, f, style, 0)
    bigs = [entry_size(e) for e in logs[(t0, 0)] if entry_size(e) > f]
    if bigs:
        S = bigs[0]             # exact serialized size (wrapper entries may miss the target by a few bytes)
    stuck = [(t0, 0)]
    assigned = [(t0, 0)]
    calls = [T("with_topic", [t0])]
    if not single:
        nother = rng.randint(1, 3)
        # further partitions of the same topic and/or a second topic
        for i in range(nother):
            if rng.random() < 0.5:
                t = t0
            else:
                t = b"other"
                if t not in topics:
                    topics[t] = []
                    calls.append(T("with_topic", [t]))
            p = len(topics[t])
            topics[t].append(rng.randint(1, nbk))
            if i == 0 and rng.random() < 0.15 and S > f:
                logs[(t, p)] = stuck_log(rng, t + b"/%d" % p, [size_for(rng.choice(["f+1", "2f+1", "4f"]), f, rng)], f, "plain", 0)
                stuck.append((t, p))
            else:
                n = rng.choice([0, 1, 2, 3, 5])
                st = rng.choice(["plain", "plain", "wrap"])
                lg = gen_log(rng, t + b"/%d" % p, n, st, start=rng.choice([0, 2, 100]), maxval=12)
                if any(entry_size(e) > f for e in lg):
                    lg = gen_log(rng, t + b"/%d" % p, n, "plain", start=0, maxval=12)
                if lg or rng.random() < 0.5:
                    logs[(t, p)] = lg
            assigned.append((t, p))
        rng.shuffle(calls)
    spec = {"brokers": brokers(nbk), "topics": topics, "logs": logs}
    r = rng.random()
    if r < 0.3:
        spec["order"] = "reversed"
    elif r < 0.5:
        spec["order"] = rng.randint(0, 10 ** 6)
    calls += [T("with_fallback_offset", [T("earliest")]), T("with_fetch_max_bytes_per_partition", [f])]
    if L is not None:
        calls.append(T("with_retry_max_bytes_limit", [L]))
    rng.shuffle(calls)
    ops = boot_ops(spec)
    nboot = len(ops)
    ops.append(T("consumer_build", [T("from_client"), calls]))
    E = max(len(lg) for lg in logs.values())
    steps = 0
    for tp in stuck:
        for e in logs[tp]:
            if entry_size(e) > f:
                steps += doubling_steps(f, L, entry_size(e)) + 2
    B = 2 * (E + 2) + steps + 2
    ops += [T("poll")] * B
    return {"cluster": spec, "ops": ops, "profile": profile,
            "meta": {"nboot": nboot, "assigned": assigned, "f": f, "L": L, "S": S, "srel": srel, "lrel": lrel, "single": single,
                     "stuck": stuck, "B": B, "family": "grid", "style": style}}


def overflow_case(rng, f, L, two_parts, profile):
    t = b"ovf"
    log = [("plain", i, None, b"m%d" % i) for i in range(3)]
    topics = {t: [1, 1] if two_parts else [1]}
    spec = {"brokers": brokers(1), "topics": topics, "logs": {(t, 0): log}}
    calls = [T("with_topic", [t]), T("with_fallback_offset", [T("earliest")]), T("with_fetch_max_bytes_per_partition", [f]),
             T("with_retry_max_bytes_limit", [L])]
    ops = boot_ops(spec)
    nboot = len(ops)
    ops.append(T("consumer_build", [T("from_client"), calls]))
    stall = {"partition": 0, "error": 0, "highwatermark": 3, "message_set": b""}
    idle = {"partition": 1, "error": 0, "highwatermark": 0, "message_set": b""}

    def mut(parts):
        return {"api": "fetch", "kind": "body", "body": {"topics": [{"topic": t, "partitions": parts}]}}
    if two_parts:
        # predicted sequence: full poll (stall, size grows), alone polls until the size cannot grow, the last of them reports
        n_alone = doubling_steps(f, L, 2 ** 40)
        ops.append({"op": T("poll"), "mutate": mut([stall, idle] if rng.random() < 0.5 else [idle, stall])})
        for _ in range(n_alone):
            ops.append({"op": T("poll"), "mutate": mut([stall])})
        nmut = 1 + n_alone
    else:
        nmut = 4
        for _ in range(nmut):
            ops.append({"op": T("poll"), "mutate": mut([stall])})
    ops += [T("poll")] * 3
    return {"cluster": spec, "ops": ops, "profile": profile,
            "meta": {"nboot": nboot, "assigned": [(t, p) for p in range(len(topics[t]))], "f": f, "L": L, "S": 2 ** 40, "srel": "unbounded",
                     "lrel": "max" if L == I32MAX else "max-1", "single": not two_parts, "stuck": [(t, 0)], "B": nmut + 3,
                     "family": "overflow", "style": "plain", "nmut": nmut}}


def gen(rng, tier):
    per = 3 if tier == "quick" else 12
    cases = []
    for srel in S_RELS:
        for lrel in L_RELS:
            k = per if srel not in ("<f", "=f") else max(1, per // 3)
            for _ in range(k):
                cases.append(make_case(rng, srel, lrel))
    for _ in range(20 if tier == "quick" else 160):
        cases.append(make_case(rng, rng.choice(S_RELS[2:]), rng.choice(L_RELS), profile="release"))
    for profile in ("debug", "release"):
        for f in (2 ** 30 - 1, 2 ** 30, 2 ** 30 + 1, 2 ** 31 - 2):
            for L in (I32MAX, I32MAX - 1):
                if f >= L:
                    continue
                cases.append(overflow_case(rng, f, L, False, profile))
                cases.append(overflow_case(rng, f, L, True, profile))
    return cases


# ---- oracle ---------------------------------------------------------------------------------------------------

def complete_from(msb, off):
    """does the (possibly cut) message set hold a complete top-level entry that reaches offset >= off ?"""
    try:
        ents, _ = kproto.parse_message_set_prefix(msb)
    except kproto.ProtoError:
        return False
    return any(e["offset"] >= off for e in ents)


def ceil_log2_ratio(S, f):
    n, cur = 0, f
    while cur < S:
        cur *= 2
        n += 1
    return n


def walk(case, recs):
    m = case["meta"]
    spec = case["cluster"]
    f, L = m["f"], m["L"] or 0
    cap = L if L > f else f
    info = {"stalls": 0, "err10": 0, "alone_polls": 0, "delivered_after_stall": 0, "max_steps": 0, "reset_seen": 0, "capped": 0}
    fails = []
    nboot = m["nboot"]
    last = recs[-1]["impl"]
    if last.name in ("panic", "hang", "abort", "harness_error"):
        fails.append("C17: poll %d crashed: %s" % (len(recs) - 1 - nboot, dumps(last)[:120]))
    if len(recs) <= nboot:
        return fails or ["C17: boot failed"], None, info
    if recs[nboot]["impl"].name != "ok":
        return fails + ["C17: consumer_build failed: %s" % dumps(recs[nboot]["impl"])[:100]], None, info
    tr = Tracker(spec, m["assigned"], "C17")
    single = len(tr.assigned) == 1
    cur = {tp: f for tp in tr.assigned}         # size the next request of the partition must use
    pending = []                                # partitions that stalled and must be re-fetched alone (multi-partition consumers)
    stall_run = {tp: 0 for tp in tr.assigned}   # consecutive stalled requests of the partition at its current offset
    first_stall_poll = {}
    for i in range(nboot + 1, len(recs)):
        rec = recs[i]
        op, res = rec["op"], rec["impl"]
        if op.name != "poll" or res.name not in ("ok", "err"):
            continue
        where = "poll %d" % (i - nboot)
        reqs = fetch_requests(rec)
        asked = {}
        for (h, t, p, off, mb) in reqs:
            tp = (t, p)
            if tp not in tr.logs:
                fails.append("C17: %s requests %r:%d which is not consumed" % (where, t, p))
                continue
            if tp in asked:
                fails.append("C17: %s requests %r:%d twice" % (where, t, p))
            asked[tp] = (off, mb)
            if mb > cap:
                fails.append("C17: %s requests %r:%d with max_bytes %d above the limit %d (fetch size %d)" % (where, t, p, mb, L, f))
            if mb != cur[tp]:
                fails.append("C17: %s requests %r:%d with max_bytes %d, expected %d (fetch size %d doubled per empty answer, capped at %d, "
                             "reset after data)" % (where, t, p, mb, cur[tp], f, cap))
                cur[tp] = mb        # resynchronise so that one deviation is reported once
            if off != tr.pos[tp]:
                fails.append("C17: %s requests %r:%d at offset %d, next undelivered offset is %d" % (where, t, p, off, tr.pos[tp]))
        alone = False
        if pending:
            alone = True
            info["alone_polls"] += 1
            if len(asked) != 1 or next(iter(asked)) not in pending:
                fails.append("C17: %s must re-fetch one of the stalled partitions %s alone, but requests %s"
                             % (where, sorted(pending), sorted(asked)))
                pending = [tp for tp in pending if tp not in asked]
            else:
                pending.remove(next(iter(asked)))
        else:
            missing = [tp for tp in tr.assigned if tp not in asked]
            if missing:
                fails.append("C17: %s does not request %s although no retry is outstanding" % (where, missing[:3]))
        # which of the requested partitions answered "data exists, but no complete entry" ?
        answered = {}
        for rep in fetch_replies(rec):
            for (t, ps) in rep:
                for (p, e, hw, msb) in ps:
                    answered[(t, p)] = (e, hw, msb)
        stalled = []
        for tp, (off, mb) in asked.items():
            if tp in answered:
                e, hw, msb = answered[tp]
                if e == 0 and hw > off and not complete_from(msb, off):
                    stalled.append(tp)
        for tp in stalled:
            info["stalls"] += 1
            stall_run[tp] += 1
            first_stall_poll.setdefault(tp, i)
        if res.name == "err":
            if res != T("err", [T("kafka", [10])]):
                fails.append("C17: %s failed with %s (no fault was injected)" % (where, dumps(res)[:80]))
                continue
            info["err10"] += 1
            ok = len(asked) == 1 and len(stalled) == 1 and not (cur[stalled[0]] < L)
            if not ok:
                fails.append("C17: %s reports MessageSizeTooLarge although %s" % (
                    where, "no single partition was fetched alone" if len(asked) != 1 else
                    "the partition delivered a complete entry" if not stalled else
                    "the size %d can still grow towards the limit %d" % (cur[stalled[0]], L)))
            continue
        flag, sets = poll_sets(res)
        nmsgs = sum(len(ms) for _, _, ms in sets)
        if (flag == 1) != (nmsgs == 0):
            fails.append("C17: %s is_empty()=%d but iterating yields %d messages" % (where, flag, nmsgs))
        for (t, p, ms) in sets:
            if (t, p) in tr.logs and (t, p) not in asked:
                fails.append("C17: %s delivered data for %r:%d which was not requested" % (where, t, p))
        fails += tr.deliver(sets, where)
        got = set((t, p) for (t, p, ms) in sets if ms)
        for tp in asked:
            if tp in stalled:
                if tp in got:
                    fails.append("C17: %s delivered data for %r:%d although its answer held no complete entry" % ((where,) + tp))
                if cur[tp] < L:
                    cur[tp] = min(2 * cur[tp], L)
                    if cur[tp] == L:
                        info["capped"] += 1
                elif len(asked) == 1:
                    fails.append("C17: %s returned an empty result for %r:%d fetched alone with max_bytes %d which cannot grow (limit %d): "
                                 "MessageSizeTooLarge expected" % (where, tp[0], tp[1], cur[tp], L))
                if not single:
                    pending.append(tp)
            elif tp in got:
                if stall_run[tp]:
                    info["delivered_after_stall"] += 1
                    info["max_steps"] = max(info["max_steps"], stall_run[tp])
                    # logarithmic bound on the number of empty answers before the entry arrived
                    size = max([entry_size(e) for e in spec["logs"].get(tp, [])] or [0])
                    bound = ceil_log2_ratio(size, f) + 1
                    if stall_run[tp] > bound and m["family"] != "overflow":     # overflow family: the empty answers are scripted
                        fails.append("C17: %r:%d needed %d empty answers before delivery, bound ceil(log2(%d/%d))+1 = %d"
                                     % (tp[0], tp[1], stall_run[tp], size, f, bound))
                    stall_run[tp] = 0
                if cur[tp] != f:
                    info["reset_seen"] += 1
                cur[tp] = f
    info["first_stall"] = first_stall_poll
    return fails, tr, info


def deliverable_prefix(entries, f, L):
    """the messages of a log the consumer can ever get: everything before the first entry that exceeds both f and the limit"""
    cap = L if (L or 0) > f else f
    out = []
    for e in entries:
        if entry_size(e) > cap:
            return view(out), False
        out.append(e)
    return view(out), True


def oracle(case, recs, cl):
    m = case["meta"]
    fails, tr, info = walk(case, recs)
    if tr is None or len(recs) < len(case["ops"]):
        return fails[:6]
    f, L = m["f"], m["L"] or 0
    for tp in tr.assigned:
        entries = case["cluster"]["logs"].get(tp, [])
        if m["family"] == "overflow":
            want, fits = view(entries), tp not in [tuple(x) for x in m["stuck"]]
        else:
            want, fits = deliverable_prefix(entries, f, L)
        done = [x for x in tr.logs[tp] if x[0] < tr.pos[tp]]
        if len(done) < len(want):
            fails.append("C17: after %d polls %r:%d delivered %d of the %d messages that fit fetch size %d / limit %d"
                         % (m["B"], tp[0], tp[1], len(done), len(want), f, L))
        if not fits and m["family"] != "overflow" and info["err10"] == 0:
            fails.append("C17: %r:%d holds an entry above fetch size %d and limit %d but no poll out of %d reported MessageSizeTooLarge"
                         % (tp[0], tp[1], f, L, m["B"]))
    if m["family"] == "overflow" and info["err10"] == 0:
        fails.append("C17: the partition kept answering empty below its high-watermark for %d polls (fetch size %d, limit %d) and no poll "
                     "reported MessageSizeTooLarge" % (m["nmut"], f, L))
    return fails[:6]


def nontrivial(case, recs):
    _, tr, info = walk(case, recs)
    return tr is not None and info["stalls"] > 0 and len(recs) == len(case["ops"])


def stats(case, recs):
    m = case["meta"]
    s = {"family:" + m["family"]: 1, "S_rel:" + m["srel"]: 1, "L_rel:" + m["lrel"]: 1,
         "consumer:" + ("single-partition" if m["single"] else "multi-partition"): 1, "profile:" + case.get("profile", "debug"): 1,
         "big_entry:" + m["style"]: 1, "stuck_partitions:%d" % len(m["stuck"]): 1}
    if m["family"] == "grid":
        tp = tuple(m["stuck"][0])
        lg = case["cluster"]["logs"][tp]
        idx = [i for i, e in enumerate(lg) if entry_size(e) > m["f"]]
        if idx:
            s["big_position:" + ("only" if len(lg) == 1 else "first" if idx[0] == 0 else "last" if idx[0] == len(lg) - 1 else "middle")] = 1
            s["big_entries_in_log:%d" % len(idx)] = 1
        f, L, S = m["f"], m["L"] or 0, m["S"]
        s["expect:" + ("no-stall" if S <= f else "delivered-by-retry" if S <= L and L > f else "reported")] = 1
    _, tr, info = walk(case, recs)
    for k in ("stalls", "err10", "alone_polls", "delivered_after_stall", "reset_seen", "capped"):
        s["seen:" + k] = info[k]
    s["doubling_steps_max:%d" % info["max_steps"]] = 1
    return s
