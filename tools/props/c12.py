"""C12: default partitioner - explicit kept, keyed = XXH32(key, 0) mod N, keyless rotates."""
import kproto
from val import T, dumps
from props import common
from props.common import boot_ops, brokers, parsed_requests, rand_bytes

SLICE = "Producer.partition / send_all_reqs (DefaultPartitioner, Producer::send_all)"
RULE = ("random producers over 1-3 topics with 1..64 partitions and random leaderless partitions; batches interleave keyed "
        "(keys: all 1- and 2-byte keys in the thorough tier, random up to 8 KiB otherwise), keyless and explicit records and "
        "unknown topics; some producers are built on a client that first saw a topic with more partitions and reloaded it by name after it "
        "was created anew with fewer; the partition of every record is read off the produce requests and compared with an independent "
        "XXH32 (pure python, from the xxHash spec); non-trivial = a case in which at least one keyed and one keyless record were assigned")
ASSUMPTIONS = ["python XXH32 in this file is an independent implementation of the xxHash specification (self-checked on published vectors)"]

M32 = 0xFFFFFFFF
P1, P2, P3, P4, P5 = 2654435761, 2246822519, 3266489917, 668265263, 374761393


def _rotl(x, r):
    return ((x << r) | (x >> (32 - r))) & M32


def xxh32(data, seed=0):
    n = len(data)
    i = 0
    if n >= 16:
        v = [(seed + P1 + P2) & M32, (seed + P2) & M32, seed & M32, (seed - P1) & M32]
        while i + 16 <= n:
            for j in range(4):
                w = int.from_bytes(data[i + 4 * j:i + 4 * j + 4], "little")
                v[j] = (_rotl((v[j] + w * P2) & M32, 13) * P1) & M32
            i += 16
        h = (_rotl(v[0], 1) + _rotl(v[1], 7) + _rotl(v[2], 12) + _rotl(v[3], 18)) & M32
    else:
        h = (seed + P5) & M32
    h = (h + n) & M32
    while i + 4 <= n:
        w = int.from_bytes(data[i:i + 4], "little")
        h = (_rotl((h + w * P3) & M32, 17) * P4) & M32
        i += 4
    while i < n:
        h = (_rotl((h + data[i] * P5) & M32, 11) * P1) & M32
        i += 1
    h ^= h >> 15
    h = (h * P2) & M32
    h ^= h >> 13
    h = (h * P3) & M32
    h ^= h >> 16
    return h


assert xxh32(b"") == 0x02CC5D05 and xxh32(b"abc") == 0x32D153FF
assert xxh32(b"Nobody inspects the spammish repetition") == 0xE2293B2F


def make_case(rng, keys=None, wrap=False, ntopics=None, recreated=False, flagged=False):
    nb = rng.randint(1, 3)
    topics = {}
    names = [b"t%d" % i for i in range(ntopics or rng.randint(1, 3))]
    for t in names:
        n = rng.choice([1, 2, 3, 4, 5, 7, 8, 16, 33, 64]) if not wrap else rng.choice([1, 2, 4, 8])
        dead = rng.choice([0.08, 0.08, 0.08, 0.08, 0.5, 1.0])       # share of leaderless partitions; 1.0: none is available
        topics[t] = [(-1 if rng.random() < dead else rng.randint(1, nb)) for _ in range(n)]
    spec = {"brokers": brokers(nb), "topics": topics, "logs": {}}
    common.maybe_order(rng, spec)
    boot = boot_ops(spec)
    if recreated:
        # the client the producer is built on has a metadata HISTORY: at its first (full) load one topic still had more - and other -
        # partitions; the topic was then deleted and created anew with the layout of `spec`, and the client reloaded it by name.
        # Count and availability are those of the last load.
        t = rng.choice(names)
        extra = rng.randint(1, 5)
        old = [rng.randint(1, nb) for _ in range(len(topics[t]) + extra)]
        body = {"brokers": [{"node_id": n, "host": h, "port": p} for n, (h, p) in sorted(spec["brokers"].items())],
                "topics": [{"error": 0, "topic": tt, "partitions": [{"error": 0 if l >= 0 else 5, "id": i, "leader": l, "replicas": [], "isr": []}
                                                                     for i, l in enumerate(old if tt == t else ls)]}
                           for tt, ls in topics.items()]}
        boot = [boot[0], {"op": boot[1], "mutate": {"kind": "body", "api": "metadata", "body": body}}] + boot[2:] + [T("load_metadata", [[t]])]
    if flagged:
        # partition-level error codes next to a LIVE leader (a follower is down: ReplicaNotAvailable 9; others): the partition is
        # available all the same - only the leader field says whether it is
        body = {"brokers": [{"node_id": n, "host": h, "port": p} for n, (h, p) in sorted(spec["brokers"].items())],
                "topics": [{"error": 0, "topic": tt, "partitions": [{"error": (rng.choice([9, 9, 3, 7]) if rng.random() < 0.4 else 0) if l >= 0 else 5,
                                                                      "id": i, "leader": l, "replicas": [], "isr": []}
                                                                     for i, l in enumerate(ls)]}
                           for tt, ls in topics.items()]}
        boot = [boot[0], {"op": boot[1], "mutate": {"kind": "body", "api": "metadata", "body": body}}] + boot[2:]
    ops = boot + [T("producer_build", [T("from_client"), [T("with_required_acks", [1])]])]
    serial = [0]
    meta_batches = []
    if wrap:
        ops.append(T("set_cntr", [4294967296 - rng.randint(1, 3)]))
    keys = list(keys) if keys else None
    for _ in range(rng.randint(1, 4)):
        recs, meta = [], []
        for _ in range(rng.randint(1, 8)):
            serial[0] += 1
            val = b"v%06d" % serial[0]
            kind = rng.random()
            topic = rng.choice(names) if rng.random() < 0.97 else b"nope"
            if kind < 0.4:
                key = keys.pop() if keys else rand_bytes(rng, 1, rng.choice([1, 2, 3, 8, 15, 16, 17, 40, 300, 8192]))
                # "no partition given" is ANY negative number (the constructors use -1)
                recs.append(T("r", [topic, rng.choice([-1, -1, -1, -2, -7, -2147483648]), key, val]))
                meta.append(("keyed", topic, key, val))
            elif kind < 0.8:
                recs.append(T("r", [topic, rng.choice([-1, -1, -1, -2, -7, -2147483648]), b"", val]))
                meta.append(("keyless", topic, None, val))
            else:
                n = len(topics.get(topic, [0]))
                p = rng.randint(0, n) if rng.random() < 0.9 else rng.randint(0, 70)
                recs.append(T("r", [topic, p, rand_bytes(rng, 0, 3), val]))
                meta.append(("explicit", topic, p, val))
        ops.append(T("send_all", [recs]))
        meta_batches.append(meta)
    return {"cluster": spec, "ops": ops, "meta": {"batches": meta_batches, "wrap": wrap}}


def gen(rng, tier):
    cases = []
    n = 120 if tier == "quick" else 1500
    for _ in range(n):
        cases.append(make_case(rng))
    for _ in range(10 if tier == "quick" else 60):
        cases.append(make_case(rng, wrap=True, ntopics=1))
    for _ in range(24 if tier == "quick" else 200):
        cases.append(make_case(rng, recreated=True))
    for _ in range(24 if tier == "quick" else 200):
        cases.append(make_case(rng, flagged=True))
    if tier == "thorough":
        allkeys = [bytes([a]) for a in range(256)] + [bytes([a, b]) for a in range(256) for b in range(256)]
        rng.shuffle(allkeys)
        while allkeys:
            chunk, allkeys = allkeys[:40], allkeys[40:]
            cases.append(make_case(rng, keys=chunk))
    else:
        ks = [bytes([a]) for a in range(256)]
        while ks:
            chunk, ks = ks[:32], ks[32:]
            cases.append(make_case(rng, keys=chunk))
    return cases


def observed_partitions(rec):
    """value -> (topic, partition) as found in the produce requests of one op"""
    out = {}
    for h, payload in rec["requests"]:
        try:
            rq = kproto.parse_request(payload)
        except kproto.ProtoError:
            continue
        if rq["api"] != "produce":
            continue
        for t in rq["body"]["topics"] or []:
            for p in t["partitions"] or []:
                for (_, k, v) in kproto.decode_message_set_deep(p["message_set"] or b""):
                    out.setdefault(v, []).append((t["topic"], p["partition"]))
    return out


def oracle(case, recs, cl):
    fails = []
    topics = case["cluster"]["topics"]
    nboot = len(case["ops"]) - len(case["meta"]["batches"])
    if len(recs) < len(case["ops"]):
        return ["C12: case aborted early: %s" % dumps(recs[-1]["impl"])[:120]]
    keyless_hist = []      # (topic, partition) of every assigned keyless record, in send order
    for bi, meta in enumerate(case["meta"]["batches"]):
        rec = recs[nboot + bi]
        res = rec["impl"]
        obs = observed_partitions(rec)
        # which records cannot be routed
        unroutable = False
        for kind, topic, x, val in meta:
            ls = topics.get(topic)
            if ls is None:
                unroutable = True
            elif kind == "explicit":
                if not (0 <= x < len(ls)) or ls[x] < 0:
                    unroutable = True
            elif kind == "keyed":
                if ls[xxh32(x) % len(ls)] < 0:
                    unroutable = True
            elif kind == "keyless":
                if all(l < 0 for l in ls):
                    unroutable = True
        if unroutable:
            if res != T("err", [T("kafka", [3])]):
                fails.append("C12: batch %d holds a record without destination but send_all returned %s" % (bi, dumps(res)[:80]))
            if obs:
                fails.append("C12: batch %d was rejected but bytes were sent" % bi)
            # keyless records before the failing one still advanced the counter: history unknown from here on
            keyless_hist.append(None)
            continue
        if res.name != "ok":
            fails.append("C12: routable batch %d failed: %s" % (bi, dumps(res)[:80]))
            continue
        for kind, topic, x, val in meta:
            o = obs.get(val, [])
            if len(o) != 1:
                fails.append("C12: record %r appears %d times on the wire" % (val, len(o)))
                continue
            ot, op_ = o[0]
            ls = topics[topic]
            if ot != topic:
                fails.append("C12: record %r sent to topic %r" % (val, ot))
            if kind == "explicit" and op_ != x:
                fails.append("C12: explicit partition %d changed to %d" % (x, op_))
            if kind == "keyed" and op_ != xxh32(x) % len(ls):
                fails.append("C12: key %s went to partition %d, XXH32 mod %d = %d" % (x.hex()[:20], op_, len(ls), xxh32(x) % len(ls)))
            if kind == "keyless":
                if ls[op_] < 0:
                    fails.append("C12: keyless record sent to leaderless partition %d" % op_)
                keyless_hist.append((topic, op_))
    # rotation: windows of |avail| consecutive keyless records of one topic
    if not case["meta"]["wrap"]:
        segs, cur = [], []
        for h in keyless_hist:
            if h is None:
                segs.append(cur)
                cur = []
            else:
                cur.append(h)
        segs.append(cur)
        for seg in segs:
            for topic in set(t for t, _ in seg):
                avail = [i for i, l in enumerate(topics[topic]) if l >= 0]
                idx = [i for i, (t, _) in enumerate(seg) if t == topic]
                for w in range(0, len(idx) - len(avail) + 1):
                    win = idx[w:w + len(avail)]
                    ps = [seg[i][1] for i in win]
                    if len(set(ps)) != len(ps):
                        interleaved = (win[-1] - win[0] + 1) != len(win)
                        if interleaved:
                            fails.append("C12-shared-counter: keyless records of %r repeat partition before visiting all (records of another topic were partitioned in between): %s" % (topic, ps))
                        else:
                            fails.append("C12: consecutive keyless records of %r repeat a partition: %s" % (topic, ps))
                        break
    return fails[:6]


def nontrivial(case, recs):
    kinds = set(k for b in case["meta"]["batches"] for (k, _, _, _) in b)
    return "keyed" in kinds and "keyless" in kinds and len(recs) == len(case["ops"])


def stats(case, recs):
    s = {}
    for b in case["meta"]["batches"]:
        for (k, t, x, _) in b:
            s["record:" + k] = s.get("record:" + k, 0) + 1
            if k == "keyed":
                s["keylen:%s" % ("1" if len(x) == 1 else "2" if len(x) == 2 else "3-15" if len(x) < 16 else "16+")] = \
                    s.get("keylen:%s" % ("1" if len(x) == 1 else "2" if len(x) == 2 else "3-15" if len(x) < 16 else "16+"), 0) + 1
    s["topics:%d" % len(case["cluster"]["topics"])] = 1
    return s
