"""Correspondence engine: runs a case (a list of API calls against a simulated cluster)
through the real crate (harness) and through the extracted Coq model (modeld), feeding the
model the recorded I/O outcomes, and compares results and I/O traces."""
import os
import resource
import struct
import subprocess

import kproto
from hrun import Harness, SimNet
from val import T, dumps, loads

BUILD = "/verif/.build"
GIB = 1 << 30


def _unlimit_stack():
    try:
        resource.setrlimit(resource.RLIMIT_STACK, (resource.RLIM_INFINITY, resource.RLIM_INFINITY))
    except Exception:
        pass


class ModelD:
    def __init__(self):
        self.p = subprocess.Popen([os.path.join(BUILD, "modeld", "modeld")], stdin=subprocess.PIPE,
                                  stdout=subprocess.PIPE, preexec_fn=_unlimit_stack)

    def close(self):
        try:
            self.p.stdin.close()
        except Exception:
            pass
        self.p.kill()
        self.p.wait()

    def _ask(self, v):
        self.p.stdin.write((dumps(v) + "\n").encode())
        self.p.stdin.flush()
        line = self.p.stdout.readline()
        if not line:
            raise EOFError("modeld died")
        return loads(line.decode())

    def reset(self):
        self._ask(T("reset"))

    def step(self, op, hints, script, env):
        out = self._ask(T("op", [op, hints, script, env]))
        if out.name != "out":
            raise ValueError("modeld: %r" % (out,))
        return out.args[0], out.args[1]


# ---- deriving the model's inputs from what was observed ------------------------------------

def events_to_script(events):
    ops, outs = [], []
    for ev in events:
        n, a = ev.name, ev.args
        if n == "connect":
            ops.append(T("connect", [a[0]]))
            outs.append(T("conn", [a[1]]))
        elif n == "shutdown":
            ops.append(T("shutdown", [a[0]]))
            outs.append(T("shut"))
        elif n == "write":
            ops.append(T("write", [a[0], a[1]]))
            r = a[2]
            outs.append(T("wrote", [r.args[0]]) if r.name == "wrote" else
                        T("wintr") if r.name == "intr" else T("wfail", [r.args[0]]))
        elif n == "read":
            ops.append(T("read", [a[0], a[1]]))
            r = a[2]
            outs.append(T("data", [r.args[0]]) if r.name == "data" else
                        T("rintr") if r.name == "intr" else T("rfail", [r.args[0]]))
    return ops, outs


def offered_requests(events):
    """[(host, payload | None)] in the order the client tried them: every write event offering a whole frame
    (the first write of a request, accepted or not) and every refused connect (payload None)"""
    out = []
    for ev in events:
        if ev.name == "write":
            data = ev.args[1]
            if len(data) >= 4 and struct.unpack(">i", data[:4])[0] == len(data) - 4:
                out.append((ev.args[0], data[4:]))
        elif ev.name == "connect" and ev.args[1] == 0:
            out.append((ev.args[0], None))
    return out


def derive_hints(requests):
    """requests: [(host, payload | None)] as returned by offered_requests"""
    hostq, fetchq, anyq, entryq = [], [], [], []
    last_corr = None
    seen_commit = set()
    for host, payload in requests:
        if payload is None:
            # a refused connect ends the call: the host is the last one of the current batch
            if hostq:
                hostq[-1].append(host)
            else:
                hostq.append([host])
            continue
        try:
            rq = kproto.parse_request(payload)
        except kproto.ProtoError:
            continue
        api, corr, body = rq["api"], rq["correlation_id"], rq["body"]
        if api in ("produce", "fetch", "offsets", "list_offsets"):
            if last_corr != corr or not hostq:
                hostq.append([])
                last_corr = corr
            hostq[-1].append(host)
        if api == "fetch":
            fetchq.append(T("hf", [host, [T("t", [t["topic"] or b"", [p["partition"] for p in (t["partitions"] or [])]])
                                          for t in (body["topics"] or [])]]))
        if api == "group_coordinator":
            anyq.append(host)
        if api == "offset_commit" and corr not in seen_commit:
            seen_commit.add(corr)
            entryq.append([T("e", [t["topic"] or b"", p["partition"]])
                           for t in (body["topics"] or []) for p in (t["partitions"] or [])])
    return T("hints", [hostq, fetchq, anyq, entryq])


def _scan_sets_for_gzip(data, table, depth=0):
    # the gunzip oracle's table: one entry per compressed value the decoder can reach; the client follows at most
    # MAX_COMPRESSION_DEPTH (8) levels, a few more are listed so that a change of that bound shows as a disagreement
    if depth > 12:
        return
    try:
        msgs, _ = kproto.parse_message_set_prefix(data)
    except Exception:
        return
    for m in msgs:
        codec = m["attr"] & 7
        v = m["value"] or b""
        if codec == 1:
            try:
                plain = kproto.gzip_decompress(v)
            except Exception:
                continue
            table[v] = plain
            _scan_sets_for_gzip(plain, table, depth + 1)
        elif codec == 2:
            try:
                plain = kproto.snappy_xerial_decompress(v)
            except Exception:
                continue
            _scan_sets_for_gzip(plain, table, depth + 1)


def derive_env(requests, replies, debug, gunzip=None):
    gz, sn = {}, {}
    gunzip = {} if gunzip is None else gunzip      # cumulative over a case: a reply may be read by a later call
    for host, payload in requests:
        try:
            rq = kproto.parse_request(payload)
        except kproto.ProtoError:
            continue
        if rq["api"] != "produce":
            continue
        for t in rq["body"]["topics"] or []:
            for p in t["partitions"] or []:
                try:
                    msgs = kproto.parse_message_set(p["message_set"] or b"")
                except kproto.ProtoError:
                    continue
                for m in msgs:
                    codec = m["attr"] & 7
                    try:
                        if codec == 1:
                            gz[kproto.gzip_decompress(m["value"])] = m["value"]
                        elif codec == 2:
                            sn[kproto.snappy_decompress(m["value"])] = m["value"]
                    except kproto.ProtoError:
                        pass
    for reply in replies:
        if reply is None:
            continue
        # replies may be malformed on purpose: look for length-prefixed gzip members anywhere in the bytes
        i = reply.find(b"\x1f\x8b\x08")
        while i != -1:
            if i >= 4:
                (ln,) = struct.unpack(">i", reply[i - 4:i])
                if 0 < ln <= len(reply) - i:
                    v = reply[i:i + ln]
                    try:
                        plain = kproto.gzip_decompress(v)
                        gunzip[v] = plain
                        _scan_sets_for_gzip(plain, gunzip, 1)
                    except Exception:
                        pass
            i = reply.find(b"\x1f\x8b\x08", i + 1)
        try:
            _, body = kproto.parse_response("fetch", 0, reply)
        except Exception:
            continue
        for t in body["topics"] or []:
            for p in t["partitions"] or []:
                _scan_sets_for_gzip(p["message_set"] or b"", gunzip)
    return T("env", [[T("gz", [k, v]) for k, v in gz.items()],
                     [T("sn", [k, v]) for k, v in sn.items()],
                     [T("gunzip", [k, v]) for k, v in gunzip.items()],
                     [], 1 if debug else 0])


# ---- canonical comparison ------------------------------------------------------------------------

SORT_OUTER = {"topics", "fetch_offsets", "list_offsets", "fetch_group_offsets"}


def _sorted(vs):
    return sorted(vs, key=dumps)


def canon_result(opname, subname, r, maxalloc=0):
    """maps both sides' result vals to a comparable form"""
    if r.name == "abort" or maxalloc >= GIB:
        return T("panic", [b"alloc"])
    if r.name == "hang":
        # a watchdog time-out while zero-filling a >= 1 GiB buffer is how such a request shows under memory pressure;
        # it equals the model's outcome only when the model predicts the oversized request
        return T("panic", [b"alloc"])
    if r.name == "panic":
        return T("panic", [b"alloc"]) if r.args and r.args[0] == b"alloc" else T("panic", [])
    if r.name == "err":
        return r
    if r.name == "model_error" or (r.name == "harness_error" and r.args and bytes(r.args[0]).startswith(b"harness: no ")):
        # the op addresses an object (client / consumer / producer) that does not exist in this state, on either side
        return T("no_object")
    if r.name != "ok":
        return r
    v = r.args[0]
    if opname in SORT_OUTER and isinstance(v, list):
        if opname == "topics":
            v = _sorted(v)
        else:
            v = _sorted(v)
    if opname == "consumer_op" and subname == "subscriptions":
        v = _sorted([T(t.name, [t.args[0], sorted(t.args[1])]) for t in v])
    return T("ok", [v])


def _blur_io(v):
    if isinstance(v, T):
        if v.name == "io":
            return T("io", [T("any")])
        return T(v.name, [_blur_io(a) for a in v.args])
    if isinstance(v, list):
        return [_blur_io(a) for a in v]
    return v


class Mismatch(Exception):
    pass


class Runner:
    """one harness + one model process; runs cases op by op"""

    def __init__(self, profile="debug"):
        self.profile = profile
        self.h = Harness(profile)
        self.m = ModelD()
        self.gunzip = {}

    def close(self):
        self.h.close()
        self.m.close()

    def reset(self):
        self.h.call(T("drop"), SimNet(lambda h, p: None))
        self.m.reset()
        self.gunzip = {}

    def run_op(self, op, net, model_op=None):
        """-> dict with both results, traces, agreement flags"""
        net.take_events()
        nreq0 = len(net.requests)
        nrep0 = len(getattr(net, "replies", []))
        hres, maxalloc = self.h.call(op, net)
        events = net.take_events()
        reqs = net.requests[nreq0:]
        replies = getattr(net, "replies", [])[nrep0:]
        ops, outs = events_to_script(events)
        hints = derive_hints(offered_requests(events))
        env = derive_env(reqs, replies, self.profile == "debug", self.gunzip)
        mres, mtrace = self.m.step(model_op if model_op is not None else op, hints, outs, env)
        sub = op.args[0].name if op.name == "consumer_op" and op.args and isinstance(op.args[0], T) else None
        ch = canon_result(op.name, sub, hres, maxalloc)
        cm = canon_result(op.name, sub, mres)
        # without any transport failure an io error can only come from a decompressor (flate2 / snap):
        # their error KINDS are not modelled, only the fact of failing
        transport_ok = all(not (ev.name in ("read", "write") and (ev.args[2].name in ("fail", "intr") or
                                                                    (ev.name == "read" and ev.args[2].name == "data" and ev.args[2].args[0] == b"")))
                           and not (ev.name == "connect" and ev.args[1] == 0) for ev in events)
        if transport_ok:
            ch, cm = _blur_io(ch), _blur_io(cm)
        rec = {"op": op, "impl": hres, "model": mres, "impl_canon": ch, "model_canon": cm,
               "impl_trace": ops, "model_trace": mtrace, "maxalloc": maxalloc,
               "requests": reqs, "replies": replies, "hints": hints, "script": outs, "env": env,
               "raw_events": events,
               "leftover": {c.host: len(c.inbuf) for c in net.conns.values() if c.inbuf},
               "unread": {c.host: len(c.outq) for c in net.conns.values() if c.outq},
               "result_agree": dumps(ch) == dumps(cm),
               "trace_agree": dumps(ops) == dumps(list(mtrace))}
        rec["agree"] = rec["result_agree"] and rec["trace_agree"]
        return rec


def describe(rec, limit=600):
    def cut(s):
        return s if len(s) <= limit else s[:limit] + "..."
    lines = ["op: " + cut(dumps(rec["op"])),
             "impl : " + cut(dumps(rec["impl"])),
             "model: " + cut(dumps(rec["model"]))]
    if not rec["trace_agree"]:
        it, mt = rec["impl_trace"], list(rec["model_trace"])
        for i in range(max(len(it), len(mt))):
            a = dumps(it[i]) if i < len(it) else "-"
            b = dumps(mt[i]) if i < len(mt) else "-"
            if a != b:
                lines.append("trace differs at %d:\n  impl : %s\n  model: %s" % (i, cut(a), cut(b)))
                break
    return "\n".join(lines)
