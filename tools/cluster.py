"""A reference Kafka cluster for the correspondence runs: a conforming broker set written on
top of kproto (independent of the client under test), with scripted error injection."""
import kproto


class Cluster:
    def __init__(self, brokers, topics, logs=None, log_start=None):
        """brokers: {node_id: (hostname bytes, port)}; topics: {topic bytes: [leader node id | -1, ...]};
        logs: {(topic, partition): [entries]} (kproto entries); log_start: {(topic, partition): earliest offset}"""
        self.brokers = dict(brokers)
        self.topics = {t: list(ls) for t, ls in topics.items()}
        self.logs = {k: list(v) for k, v in (logs or {}).items()}
        self.log_start = dict(log_start or {})
        self.committed = {}            # group -> {(topic, partition): offset}
        self.coordinator = {}          # group -> node id
        self.inject = []               # [(predicate(api, topic, partition), code, remaining uses)]
        self.coordinator_script = {}   # group -> list of scripted answers for lookups: ('ok'|code)
        self.commit_script = []        # scripted codes for successive commit requests (0 = apply)
        self.group_fetch_script = []   # scripted codes for successive offset-fetch requests
        self.by_time = lambda topic, p, t: self.earliest(topic, p)
        self.replies = []
        self.mutate = None             # (host, request dict, reply bytes) -> reply bytes | None
        self.metadata_override = None  # request dict -> body dict
        self.topic_order = None        # callable(list) -> list, order in which topics/partitions are listed in replies

    # ---- log helpers
    def host_of(self, node):
        h, p = self.brokers[node]
        return h + b":" + str(p).encode()

    def node_of_host(self, host):
        for n in self.brokers:
            if self.host_of(n) == host:
                return n
        return None

    def flat(self, topic, p):
        return kproto.flatten_entries(self.logs.get((topic, p), []))

    def latest(self, topic, p):
        msgs = self.flat(topic, p)
        return (msgs[-1][0] + 1) if msgs else self.log_start.get((topic, p), 0)

    def earliest(self, topic, p):
        if (topic, p) in self.log_start:
            return self.log_start[(topic, p)]
        msgs = self.flat(topic, p)
        return msgs[0][0] if msgs else 0

    def _code(self, api, topic, p):
        for i, (pred, code, uses) in enumerate(self.inject):
            if uses != 0 and pred(api, topic, p):
                if uses > 0:
                    self.inject[i] = (pred, code, uses - 1)
                return code
        return 0

    def _order(self, xs):
        return self.topic_order(list(xs)) if self.topic_order else list(xs)

    # ---- fetch: raw bytes from the batch containing `off`, cut at max_bytes
    def serve_fetch(self, topic, p, off, max_bytes):
        entries = self.logs.get((topic, p), [])
        out = b""
        for e in entries:
            last = kproto.flatten_entries([e])
            if not last or last[-1][0] < off:
                continue
            out += kproto.encode_entries([e])
        return out[:max(0, max_bytes)]

    # ---- request handling
    def handle(self, host, payload):
        try:
            rq = kproto.parse_request(payload)
        except kproto.ProtoError:
            self.replies.append(None)
            return None
        api, ver, corr, body = rq["api"], rq["api_version"], rq["correlation_id"], rq["body"]
        node = self.node_of_host(host)
        fn = getattr(self, "_h_" + api)
        rbody = fn(node, ver, body)
        if rbody is None:
            self.replies.append(None)
            return None
        reply = kproto.encode_response(api, ver, corr, rbody)
        if self.mutate is not None:
            reply = self.mutate(host, rq, reply)
        self.replies.append(reply)
        return reply

    def _h_metadata(self, node, ver, body):
        if self.metadata_override is not None:
            return self.metadata_override(body)
        want = body["topics"] or []
        names = [t for t in self.topics] if not want else want
        topics = []
        for t in self._order(names):
            if t in self.topics:
                topics.append({"error": 0, "topic": t,
                               "partitions": [{"error": 0 if l >= 0 else 5, "id": i, "leader": l, "replicas": [], "isr": []}
                                              for i, l in self._order(list(enumerate(self.topics[t])))]})
            else:
                topics.append({"error": 3, "topic": t, "partitions": []})
        return {"brokers": [{"node_id": n, "host": h, "port": p} for n, (h, p) in self.brokers.items()],
                "topics": topics}

    def _leads(self, node, topic, p):
        ls = self.topics.get(topic)
        return ls is not None and 0 <= p < len(ls) and ls[p] == node

    def _h_offsets(self, node, ver, body):
        topics = []
        for t in self._order(body["topics"] or []):
            parts = []
            for q in self._order(t["partitions"] or []):
                p = q["partition"]
                code = self._code("offsets", t["topic"], p)
                if code == 0 and not self._leads(node, t["topic"], p):
                    code = 3 if t["topic"] not in self.topics else 6
                if code:
                    parts.append({"partition": p, "error": code, "offsets": []})
                else:
                    tm = q["time"]
                    o = self.latest(t["topic"], p) if tm == -1 else self.earliest(t["topic"], p) if tm == -2 \
                        else self.by_time(t["topic"], p, tm)
                    # None: the broker has no segment at or before that time (a 0.8-0.10 broker answers an empty offset list)
                    parts.append({"partition": p, "error": 0, "offsets": [] if o is None else [o]})
            topics.append({"topic": t["topic"], "partitions": parts})
        return {"topics": topics}

    def _h_list_offsets(self, node, ver, body):
        topics = []
        for t in self._order(body["topics"] or []):
            parts = []
            for q in self._order(t["partitions"] or []):
                p = q["partition"]
                code = self._code("list_offsets", t["topic"], p)
                if code == 0 and not self._leads(node, t["topic"], p):
                    code = 3 if t["topic"] not in self.topics else 6
                if code:
                    parts.append({"partition": p, "error": code, "timestamp": -1, "offset": -1})
                else:
                    tm = q["time"]
                    o = self.latest(t["topic"], p) if tm == -1 else self.earliest(t["topic"], p) if tm == -2 \
                        else self.by_time(t["topic"], p, tm)
                    parts.append({"partition": p, "error": 0, "timestamp": tm if tm >= 0 else -1, "offset": o})
            topics.append({"topic": t["topic"], "partitions": parts})
        return {"topics": topics}

    def _h_fetch(self, node, ver, body):
        topics = []
        for t in self._order(body["topics"] or []):
            parts = []
            for q in self._order(t["partitions"] or []):
                p = q["partition"]
                code = self._code("fetch", t["topic"], p)
                if code == 0 and not self._leads(node, t["topic"], p):
                    code = 3 if t["topic"] not in self.topics else 6
                hw = self.latest(t["topic"], p)
                if code == 0 and not (self.earliest(t["topic"], p) <= q["offset"] <= hw):
                    code = 1
                if code:
                    parts.append({"partition": p, "error": code, "highwatermark": -1, "message_set": b""})
                else:
                    parts.append({"partition": p, "error": 0, "highwatermark": hw,
                                  "message_set": self.serve_fetch(t["topic"], p, q["offset"], q["max_bytes"])})
            topics.append({"topic": t["topic"], "partitions": parts})
        return {"topics": topics}

    def _h_produce(self, node, ver, body):
        topics = []
        for t in body["topics"] or []:
            parts = []
            for q in t["partitions"] or []:
                p = q["partition"]
                code = self._code("produce", t["topic"], p)
                if code == 0 and not self._leads(node, t["topic"], p):
                    code = 3 if t["topic"] not in self.topics else 6
                if code:
                    parts.append({"partition": p, "error": code, "offset": -1})
                    continue
                base = self.latest(t["topic"], p)
                try:
                    msgs = kproto.decode_message_set_deep(q["message_set"] or b"")
                except kproto.ProtoError:
                    parts.append({"partition": p, "error": 2, "offset": -1})
                    continue
                log = self.logs.setdefault((t["topic"], p), [])
                for i, (_, k, v) in enumerate(msgs):
                    log.append(("plain", base + i, k, v))
                parts.append({"partition": p, "error": 0, "offset": base})
            topics.append({"topic": t["topic"], "partitions": parts})
        if body["acks"] == 0:
            return None
        return {"topics": topics}

    def _h_group_coordinator(self, node, ver, body):
        g = body["group"]
        script = self.coordinator_script.get(g)
        if script:
            a = script.pop(0)
            if a != "ok" and a != 0:
                return {"error": a, "coordinator_id": -1, "host": b"", "port": -1}
        n = self.coordinator.get(g, min(self.brokers))
        h, p = self.brokers[n]
        return {"error": 0, "coordinator_id": n, "host": h, "port": p}

    def _h_offset_commit(self, node, ver, body):
        g = body["group"]
        code = self.commit_script.pop(0) if self.commit_script else 0
        if code == 0 and self.coordinator.get(g, min(self.brokers)) != node:
            code = 16
        topics = []
        for t in body["topics"] or []:
            parts = []
            for q in t["partitions"] or []:
                c = code or self._code("offset_commit", t["topic"], q["partition"])
                if c == 0:
                    self.committed.setdefault(g, {})[(t["topic"], q["partition"])] = q["offset"]
                parts.append({"partition": q["partition"], "error": c})
            topics.append({"topic": t["topic"], "partitions": parts})
        return {"topics": topics}

    def _h_offset_fetch(self, node, ver, body):
        g = body["group"]
        code = self.group_fetch_script.pop(0) if self.group_fetch_script else 0
        if code == 0 and self.coordinator.get(g, min(self.brokers)) != node:
            code = 16
        topics = []
        for t in self._order(body["topics"] or []):
            parts = []
            for p in self._order(t["partitions"] or []):
                c = code or self._code("offset_fetch", t["topic"], p)
                off = self.committed.get(g, {}).get((t["topic"], p), -1)
                if c == 0 and off == -1 and ver == 0:
                    c = 3     # protocol v0: nothing committed is reported as unknown topic or partition
                parts.append({"partition": p, "offset": off if c == 0 else -1, "metadata": b"", "error": c})
            topics.append({"topic": t["topic"], "partitions": parts})
        return {"topics": topics}
