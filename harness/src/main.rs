//! kvh: executes scripted API calls against the real kafka-rust crate (feature
//! `verif_hooks`) over an in-memory transport.  Every transport event is
//! forwarded to the driver on stdout and answered on stdin; the harness never
//! interprets Kafka bytes itself.
//!
//! driver -> harness:  one op per line (a `val`), answers to transport events
//! harness -> driver:  transport events `( connect id xHOST )`, `( write id xBYTES )`,
//!                     `( read id n )`, `( shutdown id )`, and finally `( result v maxalloc )`.

mod val;

use std::alloc::{GlobalAlloc, Layout, System};
use std::cell::RefCell;
use std::io::{self, BufRead, Read, Write};
use std::panic::{catch_unwind, AssertUnwindSafe};
use std::sync::atomic::{AtomicUsize, Ordering};
use std::time::Duration;

use kafka::client::verif::{set_connector, VerifStream};
use kafka::client::{
    CommitOffset, Compression, FetchGroupOffset, FetchOffset, FetchPartition, GroupOffsetStorage,
    KafkaClient, ProduceMessage, RequiredAcks,
};
use kafka::consumer::{Consumer, MessageSets};
use kafka::producer::{Producer, Record};
use kafka::Error;

use val::{b, i, l, t, Val};

// ---- counting, checking allocator ---------------------------------------
// Records the largest single request (C13) and makes stale pointers observable (C18): a block is
// overwritten with 0xDD before it is released, and realloc always moves the block (the old one is
// poisoned and released), as a size-class allocator or a sanitizer does.  glibc alone keeps a
// shrunk block in place and freed bytes intact, which hides dangling views.

struct Counting;
static MAX_ALLOC: AtomicUsize = AtomicUsize::new(0);
// bytes currently allocated (C18: what a call that failed, or a result that was dropped, leaves behind)
static LIVE: AtomicUsize = AtomicUsize::new(0);
const POISON: u8 = 0xDD;

unsafe impl GlobalAlloc for Counting {
    unsafe fn alloc(&self, layout: Layout) -> *mut u8 {
        MAX_ALLOC.fetch_max(layout.size(), Ordering::Relaxed);
        LIVE.fetch_add(layout.size(), Ordering::Relaxed);
        System.alloc(layout)
    }
    unsafe fn alloc_zeroed(&self, layout: Layout) -> *mut u8 {
        MAX_ALLOC.fetch_max(layout.size(), Ordering::Relaxed);
        LIVE.fetch_add(layout.size(), Ordering::Relaxed);
        System.alloc_zeroed(layout)
    }
    unsafe fn dealloc(&self, ptr: *mut u8, layout: Layout) {
        std::ptr::write_bytes(ptr, POISON, layout.size());
        LIVE.fetch_sub(layout.size(), Ordering::Relaxed);
        System.dealloc(ptr, layout)
    }
    unsafe fn realloc(&self, ptr: *mut u8, layout: Layout, new_size: usize) -> *mut u8 {
        MAX_ALLOC.fetch_max(new_size, Ordering::Relaxed);
        let new_layout = Layout::from_size_align_unchecked(new_size, layout.align());
        let np = System.alloc(new_layout);
        if !np.is_null() {
            LIVE.fetch_add(new_size, Ordering::Relaxed);
            LIVE.fetch_sub(layout.size(), Ordering::Relaxed);
            std::ptr::copy_nonoverlapping(ptr, np, layout.size().min(new_size));
            std::ptr::write_bytes(ptr, POISON, layout.size());
            System.dealloc(ptr, layout);
        }
        np
    }
}

#[global_allocator]
static GLOBAL: Counting = Counting;

// ---- channel to the driver ----------------------------------------------

struct Chan {
    inp: io::BufReader<io::Stdin>,
    next_conn: u32,
}

thread_local! {
    static CHAN: RefCell<Chan> = RefCell::new(Chan { inp: io::BufReader::new(io::stdin()), next_conn: 0 });
}

fn emit(v: &Val) {
    let mut out = io::stdout().lock();
    writeln!(out, "{}", v.to_text()).expect("harness: stdout");
    out.flush().expect("harness: flush");
}

fn read_line() -> Option<String> {
    CHAN.with(|c| {
        let mut line = String::new();
        let n = c.borrow_mut().inp.read_line(&mut line).expect("harness: stdin");
        if n == 0 {
            None
        } else {
            Some(line)
        }
    })
}

fn ask(v: &Val) -> Val {
    emit(v);
    let line = read_line().expect("harness: driver closed the pipe during an event");
    Val::parse(&line).unwrap_or_else(|e| panic!("harness: bad answer {:?}: {}", line, e))
}

fn io_err(kind: &str) -> io::Error {
    let k = match kind {
        "eof" => io::ErrorKind::UnexpectedEof,
        "timeout" => io::ErrorKind::TimedOut,
        "refused" => io::ErrorKind::ConnectionRefused,
        "reset" => io::ErrorKind::ConnectionReset,
        "intr" => io::ErrorKind::Interrupted,
        "writezero" => io::ErrorKind::WriteZero,
        _ => io::ErrorKind::Other,
    };
    io::Error::new(k, format!("injected {}", kind))
}

struct MemStream {
    id: u32,
}

impl Read for MemStream {
    fn read(&mut self, buf: &mut [u8]) -> io::Result<usize> {
        let ans = ask(&t("read", vec![i(self.id), i(buf.len() as i64)]));
        let (name, args) = ans.tag();
        match name {
            "data" => {
                let bs = args[0].bytes();
                assert!(bs.len() <= buf.len(), "harness: driver returned too many bytes");
                buf[..bs.len()].copy_from_slice(bs);
                Ok(bs.len())
            }
            "intr" => Err(io_err("intr")),
            "fail" => Err(io_err(args[0].tag().0)),
            _ => panic!("harness: bad read answer {}", name),
        }
    }
}

impl Write for MemStream {
    fn write(&mut self, buf: &[u8]) -> io::Result<usize> {
        let ans = ask(&t("write", vec![i(self.id), b(buf)]));
        let (name, args) = ans.tag();
        match name {
            "wrote" => {
                let k = args[0].int() as usize;
                assert!(k <= buf.len());
                Ok(k)
            }
            "intr" => Err(io_err("intr")),
            "fail" => Err(io_err(args[0].tag().0)),
            _ => panic!("harness: bad write answer {}", name),
        }
    }
    fn flush(&mut self) -> io::Result<()> {
        Ok(())
    }
}

impl VerifStream for MemStream {
    fn shutdown(&mut self) -> io::Result<()> {
        ask(&t("shutdown", vec![i(self.id)]));
        Ok(())
    }
}

fn install_connector() {
    set_connector(Some(Box::new(|host: &str| {
        let id = CHAN.with(|c| {
            let mut c = c.borrow_mut();
            let id = c.next_conn;
            c.next_conn += 1;
            id
        });
        let ans = ask(&t("connect", vec![i(id), b(host.as_bytes())]));
        match ans.tag().0 {
            "ok" => Ok(Box::new(MemStream { id }) as Box<dyn VerifStream>),
            _ => Err(io_err("refused")),
        }
    })));
}

// ---- canonical results ----------------------------------------------------

fn code_val(c: kafka::error::KafkaCode) -> Val {
    i(c as i32)
}

fn err_val(e: &Error) -> Val {
    match e {
        Error::Io(e) => {
            let k = match e.kind() {
                io::ErrorKind::UnexpectedEof => "eof",
                io::ErrorKind::WriteZero => "writezero",
                io::ErrorKind::TimedOut | io::ErrorKind::WouldBlock => "timeout",
                io::ErrorKind::ConnectionRefused => "refused",
                _ => "other",
            };
            t("io", vec![t(k, vec![])])
        }
        Error::Ssl(_) => t("ssl", vec![]),
        Error::InvalidSnappy(_) => t("invalid_snappy", vec![]),
        Error::Kafka(c) => t("kafka", vec![code_val(*c)]),
        Error::TopicPartitionError {
            topic_name,
            partition_id,
            error_code,
        } => t(
            "tperr",
            vec![b(topic_name.as_bytes()), i(*partition_id), code_val(*error_code)],
        ),
        Error::UnsupportedProtocol => t("unsupported_protocol", vec![]),
        Error::UnsupportedCompression => t("unsupported_compression", vec![]),
        Error::UnexpectedEOF => t("unexpected_eof", vec![]),
        Error::CodecError => t("codec", vec![]),
        Error::StringDecodeError => t("string_decode", vec![]),
        Error::NoHostReachable => t("no_host_reachable", vec![]),
        Error::NoTopicsAssigned => t("no_topics_assigned", vec![]),
        Error::InvalidDuration => t("invalid_duration", vec![]),
        Error::ArcSelf(inner) => err_val(inner),
        Error::UnsetOffsetStorage => t("unset_offset_storage", vec![]),
        Error::UnsetGroupId => t("unset_group_id", vec![]),
    }
}

fn res_val<T>(r: Result<T, Error>, f: impl FnOnce(T) -> Val) -> Val {
    match r {
        Ok(x) => t("ok", vec![f(x)]),
        Err(e) => t("err", vec![err_val(&e)]),
    }
}

fn unit(_: ()) -> Val {
    l(vec![])
}

fn dur(a: &Val, bv: &Val) -> Duration {
    Duration::new(a.int() as u64, bv.int() as u32)
}

fn dur_val(d: Duration) -> Val {
    l(vec![i(d.as_secs() as i128), i(d.subsec_nanos())])
}

fn fetch_offset(v: &Val) -> FetchOffset {
    let (n, a) = v.tag();
    match n {
        "earliest" => FetchOffset::Earliest,
        "latest" => FetchOffset::Latest,
        "bytime" => FetchOffset::ByTime(a[0].int() as i64),
        _ => panic!("harness: bad fetch offset"),
    }
}

fn compression(n: i128) -> Compression {
    match n {
        0 => Compression::NONE,
        1 => Compression::GZIP,
        2 => Compression::SNAPPY,
        _ => panic!("harness: bad compression"),
    }
}

fn storage(n: i128) -> Option<GroupOffsetStorage> {
    match n {
        0 => Some(GroupOffsetStorage::Zookeeper),
        1 => Some(GroupOffsetStorage::Kafka),
        _ => None,
    }
}

fn storage_val(s: Option<GroupOffsetStorage>) -> Val {
    i(match s {
        None => -1,
        Some(GroupOffsetStorage::Zookeeper) => 0,
        Some(GroupOffsetStorage::Kafka) => 1,
    })
}

fn acks(n: i128) -> RequiredAcks {
    match n {
        0 => RequiredAcks::None,
        1 => RequiredAcks::One,
        -1 => RequiredAcks::All,
        _ => panic!("harness: bad acks"),
    }
}

fn opt_bytes(v: &Val) -> Option<&[u8]> {
    match v {
        Val::Tag(n, _) if n == "none" => None,
        Val::Tag(n, a) if n == "some" => Some(a[0].bytes()),
        _ => panic!("harness: bad optional bytes"),
    }
}

fn topics_view(c: &KafkaClient) -> Val {
    let mut ts = vec![];
    for tpc in c.topics() {
        let mut ps = vec![];
        for p in tpc.partitions() {
            ps.push(match p.leader() {
                Some(br) => t("p", vec![i(p.id()), t("leader", vec![i(br.id()), b(br.host().as_bytes())])]),
                None => t("p", vec![i(p.id()), t("noleader", vec![])]),
            });
        }
        let avail: Vec<Val> = tpc.partitions().available_ids().into_iter().map(i).collect();
        ts.push(t("topic", vec![b(tpc.name().as_bytes()), l(ps), l(avail)]));
    }
    l(ts)
}

fn config_view(c: &KafkaClient) -> Val {
    l(vec![
        t("client_id", vec![b(c.client_id().as_bytes())]),
        t("compression", vec![i(c.compression() as i32)]),
        t("fetch_max_wait_time", vec![dur_val(c.fetch_max_wait_time())]),
        t("fetch_min_bytes", vec![i(c.fetch_min_bytes())]),
        t("fetch_max_bytes_per_partition", vec![i(c.fetch_max_bytes_per_partition())]),
        t("fetch_crc_validation", vec![i(c.fetch_crc_validation() as i32)]),
        t("group_offset_storage", vec![storage_val(c.group_offset_storage())]),
        t("retry_backoff_time", vec![dur_val(c.retry_backoff_time())]),
        t("retry_max_attempts", vec![i(c.retry_max_attempts())]),
        t("connection_idle_timeout", vec![dur_val(c.connection_idle_timeout())]),
    ])
}

fn responses_view(rs: &[kafka::client::fetch::Response]) -> Val {
    l(rs.iter()
        .map(|r| {
            t(
                "resp",
                vec![
                    i(r.correlation_id()),
                    l(r.topics()
                        .iter()
                        .map(|tp| {
                            t(
                                "topic",
                                vec![
                                    b(tp.topic().as_bytes()),
                                    l(tp.partitions()
                                        .iter()
                                        .map(|p| {
                                            t(
                                                "part",
                                                vec![
                                                    i(p.partition()),
                                                    match p.data() {
                                                        Ok(d) => t(
                                                            "ok",
                                                            vec![
                                                                i(d.highwatermark_offset()),
                                                                l(d.messages()
                                                                    .iter()
                                                                    .map(|m| t("m", vec![i(m.offset), b(m.key), b(m.value)]))
                                                                    .collect()),
                                                            ],
                                                        ),
                                                        Err(e) => t("err", vec![err_val(&e)]),
                                                    },
                                                ],
                                            )
                                        })
                                        .collect()),
                                ],
                            )
                        })
                        .collect()),
                ],
            )
        })
        .collect())
}

fn messagesets_view(ms: &MessageSets) -> Val {
    t(
        "ms",
        vec![
            i(ms.is_empty() as i32),
            l(ms.iter()
                .map(|s| {
                    t(
                        "set",
                        vec![
                            b(s.topic().as_bytes()),
                            i(s.partition()),
                            l(s.messages()
                                .iter()
                                .map(|m| t("m", vec![i(m.offset), b(m.key), b(m.value)]))
                                .collect()),
                        ],
                    )
                })
                .collect()),
        ],
    )
}

fn offsets_map_view(m: std::collections::HashMap<String, Vec<kafka::client::PartitionOffset>>) -> Val {
    l(m.into_iter()
        .map(|(tp, ps)| {
            t(
                "topic",
                vec![
                    b(tp.as_bytes()),
                    l(ps.iter().map(|p| t("po", vec![i(p.partition), i(p.offset)])).collect()),
                ],
            )
        })
        .collect())
}

fn confirms_view(cs: Vec<kafka::producer::ProduceConfirm>) -> Val {
    l(cs.into_iter()
        .map(|c| {
            t(
                "confirm",
                vec![
                    b(c.topic.as_bytes()),
                    l(c.partition_confirms
                        .iter()
                        .map(|p| {
                            t(
                                "pc",
                                vec![
                                    i(p.partition),
                                    match p.offset {
                                        Ok(o) => t("ok", vec![i(o)]),
                                        Err(c) => t("err", vec![code_val(c)]),
                                    },
                                ],
                            )
                        })
                        .collect()),
                ],
            )
        })
        .collect())
}

// ---- the object under test ---------------------------------------------------

enum Obj {
    None,
    Client(KafkaClient),
    Producer(Producer),
    Consumer(Consumer),
}

struct World {
    obj: Obj,
    last_poll: Option<MessageSets>,
    last_fetch: Option<Vec<kafka::client::fetch::Response>>,
}

fn hosts_of(v: &Val) -> Vec<String> {
    v.list().iter().map(|h| h.string()).collect()
}

fn client_mut(w: &mut World) -> &mut KafkaClient {
    match &mut w.obj {
        Obj::Client(c) => c,
        Obj::Producer(p) => p.client_mut(),
        Obj::Consumer(c) => c.client_mut(),
        Obj::None => panic!("harness: no object"),
    }
}

fn build_consumer(w: &mut World, from: &Val, calls: &[Val]) -> Val {
    let mut bld = match from.tag() {
        ("from_hosts", a) => Consumer::from_hosts(hosts_of(&a[0])),
        ("from_client", _) => match std::mem::replace(&mut w.obj, Obj::None) {
            Obj::Client(c) => Consumer::from_client(c),
            _ => panic!("harness: from_client without client"),
        },
        _ => panic!("harness: bad consumer source"),
    };
    for c in calls {
        let (n, a) = c.tag();
        bld = match n {
            "with_group" => bld.with_group(a[0].string()),
            "with_topic" => bld.with_topic(a[0].string()),
            "with_topic_partitions" => {
                let ps: Vec<i32> = a[1].list().iter().map(|p| p.int() as i32).collect();
                bld.with_topic_partitions(a[0].string(), &ps)
            }
            "with_fallback_offset" => bld.with_fallback_offset(fetch_offset(&a[0])),
            "with_fetch_max_wait_time" => bld.with_fetch_max_wait_time(dur(&a[0], &a[1])),
            "with_fetch_min_bytes" => bld.with_fetch_min_bytes(a[0].int() as i32),
            "with_fetch_max_bytes_per_partition" => bld.with_fetch_max_bytes_per_partition(a[0].int() as i32),
            "with_fetch_crc_validation" => bld.with_fetch_crc_validation(a[0].int() != 0),
            "with_offset_storage" => bld.with_offset_storage(storage(a[0].int())),
            "with_retry_max_bytes_limit" => bld.with_retry_max_bytes_limit(a[0].int() as i32),
            "with_connection_idle_timeout" => bld.with_connection_idle_timeout(dur(&a[0], &a[1])),
            "with_client_id" => bld.with_client_id(a[0].string()),
            _ => panic!("harness: bad consumer builder call {}", n),
        };
    }
    match bld.create() {
        Ok(c) => {
            w.obj = Obj::Consumer(c);
            t("ok", vec![l(vec![])])
        }
        Err(e) => t("err", vec![err_val(&e)]),
    }
}

struct NullPartitioner;
impl kafka::producer::Partitioner for NullPartitioner {
    fn partition(&mut self, _: kafka::producer::Topics<'_>, _: &mut ProduceMessage<'_, '_>) {}
}

fn build_producer(w: &mut World, from: &Val, calls: &[Val]) -> Val {
    let mut bld = match from.tag() {
        ("from_hosts", a) => Producer::from_hosts(hosts_of(&a[0])),
        ("from_client", _) => match std::mem::replace(&mut w.obj, Obj::None) {
            Obj::Client(c) => Producer::from_client(c),
            _ => panic!("harness: from_client without client"),
        },
        _ => panic!("harness: bad producer source"),
    };
    for c in calls {
        let (n, a) = c.tag();
        bld = match n {
            "with_compression" => bld.with_compression(compression(a[0].int())),
            "with_ack_timeout" => bld.with_ack_timeout(dur(&a[0], &a[1])),
            "with_connection_idle_timeout" => bld.with_connection_idle_timeout(dur(&a[0], &a[1])),
            "with_required_acks" => bld.with_required_acks(acks(a[0].int())),
            "with_client_id" => bld.with_client_id(a[0].string()),
            // with_partitioner changes the builder's type; it is exercised with the default
            // partitioner re-installed so that the remaining calls stay applicable
            "with_partitioner" => bld.with_partitioner(kafka::producer::DefaultPartitioner::default()),
            _ => panic!("harness: bad producer builder call {}", n),
        };
    }
    let _ = NullPartitioner;
    match bld.create() {
        Ok(p) => {
            w.obj = Obj::Producer(p);
            t("ok", vec![l(vec![])])
        }
        Err(e) => t("err", vec![err_val(&e)]),
    }
}

fn run_op(w: &mut World, op: &Val) -> Val {
    let (name, a) = op.tag();
    match name {
        "drop" => {
            w.last_poll = None;
            w.last_fetch = None;
            w.obj = Obj::None;
            t("ok", vec![l(vec![])])
        }
        "client_new" => {
            w.last_poll = None;
            w.last_fetch = None;
            let mut c = KafkaClient::new(hosts_of(&a[0]));
            c.set_retry_backoff_time(Duration::from_millis(0));
            w.obj = Obj::Client(c);
            t("ok", vec![l(vec![])])
        }
        "into_client" => {
            w.last_poll = None;
            w.obj = match std::mem::replace(&mut w.obj, Obj::None) {
                Obj::Producer(p) => Obj::Client(p.into_client()),
                Obj::Consumer(c) => Obj::Client(c.into_client()),
                o => o,
            };
            t("ok", vec![l(vec![])])
        }
        "consumer_build" => {
            w.last_poll = None;
            build_consumer(w, &a[0], a[1].list())
        }
        "producer_build" => build_producer(w, &a[0], a[1].list()),
        // ---- client setters / getters
        "set_client_id" => {
            client_mut(w).set_client_id(a[0].string());
            t("ok", vec![l(vec![])])
        }
        "set_compression" => {
            client_mut(w).set_compression(compression(a[0].int()));
            t("ok", vec![l(vec![])])
        }
        "set_fetch_max_wait_time" => res_val(client_mut(w).set_fetch_max_wait_time(dur(&a[0], &a[1])), unit),
        "set_fetch_min_bytes" => {
            client_mut(w).set_fetch_min_bytes(a[0].int() as i32);
            t("ok", vec![l(vec![])])
        }
        "set_fetch_max_bytes_per_partition" => {
            client_mut(w).set_fetch_max_bytes_per_partition(a[0].int() as i32);
            t("ok", vec![l(vec![])])
        }
        "set_fetch_crc_validation" => {
            client_mut(w).set_fetch_crc_validation(a[0].int() != 0);
            t("ok", vec![l(vec![])])
        }
        "set_group_offset_storage" => {
            client_mut(w).set_group_offset_storage(storage(a[0].int()));
            t("ok", vec![l(vec![])])
        }
        "set_retry_max_attempts" => {
            client_mut(w).set_retry_max_attempts(a[0].int() as u32);
            t("ok", vec![l(vec![])])
        }
        "set_connection_idle_timeout" => {
            client_mut(w).set_connection_idle_timeout(dur(&a[0], &a[1]));
            t("ok", vec![l(vec![])])
        }
        "set_correlation" => {
            client_mut(w).verif_set_correlation(a[0].int() as i32);
            t("ok", vec![l(vec![])])
        }
        "get_config" => t("ok", vec![config_view(client_mut(w))]),
        "topics" => t("ok", vec![topics_view(client_mut(w))]),
        // ---- metadata
        "load_metadata_all" => res_val(client_mut(w).load_metadata_all(), unit),
        "load_metadata" => {
            let ts: Vec<String> = a[0].list().iter().map(|x| x.string()).collect();
            res_val(client_mut(w).load_metadata(&ts), unit)
        }
        "reset_metadata" => {
            client_mut(w).reset_metadata();
            t("ok", vec![l(vec![])])
        }
        // ---- offsets
        "fetch_offsets" => {
            let ts: Vec<String> = a[0].list().iter().map(|x| x.string()).collect();
            res_val(client_mut(w).fetch_offsets(&ts, fetch_offset(&a[1])), offsets_map_view)
        }
        "list_offsets" => {
            let ts: Vec<String> = a[0].list().iter().map(|x| x.string()).collect();
            res_val(client_mut(w).list_offsets(&ts, fetch_offset(&a[1])), |m| {
                l(m.into_iter()
                    .map(|(tp, ps)| {
                        t(
                            "topic",
                            vec![
                                b(tp.as_bytes()),
                                l(ps.iter()
                                    .map(|p| t("tpo", vec![i(p.partition), i(p.offset), i(p.time)]))
                                    .collect()),
                            ],
                        )
                    })
                    .collect())
            })
        }
        "fetch_topic_offsets" => res_val(
            client_mut(w).fetch_topic_offsets(a[0].string(), fetch_offset(&a[1])),
            |ps| l(ps.iter().map(|p| t("po", vec![i(p.partition), i(p.offset)])).collect()),
        ),
        // ---- fetch
        "fetch_messages" => {
            w.last_fetch = None;
            let names: Vec<String> = a[0].list().iter().map(|x| x.tag().1[0].string()).collect();
            let fps: Vec<FetchPartition<'_>> = a[0]
                .list()
                .iter()
                .zip(names.iter())
                .map(|(x, n)| {
                    let xs = x.tag().1;
                    let fp = FetchPartition::new(n, xs[1].int() as i32, xs[2].int() as i64);
                    if xs[3].int() != -1 {
                        fp.with_max_bytes(xs[3].int() as i32)
                    } else {
                        fp
                    }
                })
                .collect();
            let r = client_mut(w).fetch_messages(fps);
            match r {
                Ok(rs) => {
                    let v = responses_view(&rs);
                    w.last_fetch = Some(rs);
                    t("ok", vec![v])
                }
                Err(e) => t("err", vec![err_val(&e)]),
            }
        }
        // ---- C16: let real time pass between two calls (idle time-out)
        "sleep_ms" => {
            std::thread::sleep(Duration::from_millis(a[0].int() as u64));
            t("ok", vec![])
        }
        // ---- C18: bytes allocated right now (everything the process holds: client, kept results, harness state)
        "live_bytes" => {
            w.last_poll = None;
            w.last_fetch = None;
            t("ok", vec![i(LIVE.load(Ordering::Relaxed) as i64)])
        }
        // ---- C18: keep results alive across moves, other work and allocation churn
        "churn" => {
            let n = a[0].int() as usize;
            let mut keep: Vec<Vec<u8>> = Vec::new();
            for k in 0..n {
                let size = 16 + (k * 7919) % 65536;
                let v = vec![0xAAu8; size];
                if k % 3 == 0 {
                    keep.push(v);
                }
                if keep.len() > 64 {
                    keep.clear();
                }
            }
            t("ok", vec![i(keep.len() as i64)])
        }
        "move_results" => {
            let how = a[0].int();
            if let Some(rs) = w.last_fetch.take() {
                w.last_fetch = Some(match how {
                    0 => *Box::new(rs),
                    1 => {
                        let mut out = Vec::with_capacity(rs.len() + 7);
                        for r in rs {
                            out.push(r);
                        }
                        out
                    }
                    _ => std::thread::spawn(move || {
                        let v = responses_view(&rs).to_text();
                        std::hint::black_box(v);
                        rs
                    })
                    .join()
                    .expect("harness: thread"),
                });
            }
            if let Some(ms) = w.last_poll.take() {
                w.last_poll = Some(match how {
                    0 => *Box::new(ms),
                    1 => {
                        let mut v = vec![ms];
                        v.reserve(100);
                        v.pop().unwrap()
                    }
                    _ => std::thread::spawn(move || {
                        let v = messagesets_view(&ms).to_text();
                        std::hint::black_box(v);
                        ms
                    })
                    .join()
                    .expect("harness: thread"),
                });
            }
            t("ok", vec![l(vec![])])
        }
        "drop_results" => {
            w.last_fetch = None;
            w.last_poll = None;
            t("ok", vec![l(vec![])])
        }
        "reread_fetch" => match &w.last_fetch {
            Some(rs) => t("ok", vec![responses_view(rs)]),
            None => t("ok", vec![l(vec![])]),
        },
        // ---- produce
        "produce_messages" => {
            let names: Vec<String> = a[3].list().iter().map(|x| x.tag().1[0].string()).collect();
            let msgs: Vec<ProduceMessage<'_, '_>> = a[3]
                .list()
                .iter()
                .zip(names.iter())
                .map(|(x, n)| {
                    let xs = x.tag().1;
                    ProduceMessage::new(n, xs[1].int() as i32, opt_bytes(&xs[2]), opt_bytes(&xs[3]))
                })
                .collect();
            res_val(
                client_mut(w).produce_messages(acks(a[0].int()), dur(&a[1], &a[2]), msgs),
                confirms_view,
            )
        }
        // ---- group offsets
        "commit_offsets" => {
            let names: Vec<String> = a[1].list().iter().map(|x| x.tag().1[0].string()).collect();
            let cos: Vec<CommitOffset<'_>> = a[1]
                .list()
                .iter()
                .zip(names.iter())
                .map(|(x, n)| {
                    let xs = x.tag().1;
                    CommitOffset::new(n, xs[1].int() as i32, xs[2].int() as i64)
                })
                .collect();
            res_val(client_mut(w).commit_offsets(&a[0].string(), cos), unit)
        }
        "fetch_group_offsets" => {
            let names: Vec<String> = a[1].list().iter().map(|x| x.tag().1[0].string()).collect();
            let fgs: Vec<FetchGroupOffset<'_>> = a[1]
                .list()
                .iter()
                .zip(names.iter())
                .map(|(x, n)| FetchGroupOffset::new(n, x.tag().1[1].int() as i32))
                .collect();
            res_val(client_mut(w).fetch_group_offsets(&a[0].string(), fgs), offsets_map_view)
        }
        "fetch_group_topic_offset" => res_val(
            client_mut(w).fetch_group_topic_offset(&a[0].string(), &a[1].string()),
            |ps| l(ps.iter().map(|p| t("po", vec![i(p.partition), i(p.offset)])).collect()),
        ),
        // ---- producer
        "send_all" | "send" => {
            let p = match &mut w.obj {
                Obj::Producer(p) => p,
                _ => panic!("harness: no producer"),
            };
            let names: Vec<String> = a[0].list().iter().map(|x| x.tag().1[0].string()).collect();
            let recs: Vec<Record<'_, &[u8], &[u8]>> = a[0]
                .list()
                .iter()
                .zip(names.iter())
                .map(|(x, n)| {
                    let xs = x.tag().1;
                    Record::from_key_value(n.as_str(), xs[2].bytes(), xs[3].bytes()).with_partition(xs[1].int() as i32)
                })
                .collect();
            if name == "send" {
                res_val(p.send(&recs[0]), unit)
            } else {
                res_val(p.send_all(&recs), confirms_view)
            }
        }
        "set_cntr" => {
            match &mut w.obj {
                Obj::Producer(p) => p.verif_set_partitioner_counter(a[0].int() as u32),
                _ => panic!("harness: no producer"),
            };
            t("ok", vec![l(vec![])])
        }
        // ---- consumer
        "poll" => {
            w.last_poll = None;
            let c = match &mut w.obj {
                Obj::Consumer(c) => c,
                _ => panic!("harness: no consumer"),
            };
            match c.poll() {
                Ok(ms) => {
                    let v = messagesets_view(&ms);
                    w.last_poll = Some(ms);
                    t("ok", vec![v])
                }
                Err(e) => t("err", vec![err_val(&e)]),
            }
        }
        "reread_poll" => match &w.last_poll {
            Some(ms) => t("ok", vec![messagesets_view(ms)]),
            None => t("ok", vec![l(vec![])]),
        },
        "consume_messageset" => {
            let k = a[0].int() as usize;
            let (c, ms) = match (&mut w.obj, &w.last_poll) {
                (Obj::Consumer(c), Some(ms)) => (c, ms),
                _ => panic!("harness: no consumer/poll"),
            };
            match ms.iter().nth(k) {
                Some(s) => res_val(c.consume_messageset(&s), unit),
                None => t("ok", vec![l(vec![])]),
            }
        }
        "consumer_op" => {
            let c = match &mut w.obj {
                Obj::Consumer(c) => c,
                _ => panic!("harness: no consumer"),
            };
            let (n, x) = a[0].tag();
            match n {
                "seek" => res_val(c.seek(&x[0].string(), x[1].int() as i32, x[2].int() as i64), unit),
                "consume_message" => res_val(
                    c.consume_message(&x[0].string(), x[1].int() as i32, x[2].int() as i64),
                    unit,
                ),
                "commit_consumed" => res_val(c.commit_consumed(), unit),
                "last_consumed_message" => t(
                    "ok",
                    vec![match c.last_consumed_message(&x[0].string(), x[1].int() as i32) {
                        Some(o) => t("some", vec![i(o)]),
                        None => t("none", vec![]),
                    }],
                ),
                "subscriptions" => t(
                    "ok",
                    vec![l(c
                        .subscriptions()
                        .into_iter()
                        .map(|(tp, ps)| t("topic", vec![b(tp.as_bytes()), l(ps.into_iter().map(i).collect())]))
                        .collect())],
                ),
                "group" => t("ok", vec![b(c.group().as_bytes())]),
                _ => panic!("harness: bad consumer op {}", n),
            }
        }
        _ => panic!("harness: unknown op {}", name),
    }
}

fn main() {
    // the operations run on a spawned thread with Rust's default stack size (2 MiB, unless RUST_MIN_STACK says otherwise):
    // that is where an application's consumer / producer loop normally lives, and what "overflows the stack" is measured against
    let h = std::thread::Builder::new().name("ops".into()).spawn(real_main).expect("spawn");
    let _ = h.join();
}

fn real_main() {
    install_connector();
    // silence the default panic message; the payload is reported in the result
    std::panic::set_hook(Box::new(|_| {}));
    let mut w = World {
        obj: Obj::None,
        last_poll: None,
        last_fetch: None,
    };
    while let Some(line) = read_line() {
        let line = line.trim();
        if line.is_empty() {
            continue;
        }
        let op = match Val::parse(line) {
            Ok(v) => v,
            Err(e) => {
                emit(&t("result", vec![t("harness_error", vec![b(e.as_bytes())]), i(0)]));
                continue;
            }
        };
        if let Val::Tag(n, _) = &op {
            if n == "quit" {
                break;
            }
        }
        MAX_ALLOC.store(0, Ordering::Relaxed);
        let r = catch_unwind(AssertUnwindSafe(|| run_op(&mut w, &op)));
        let maxalloc = MAX_ALLOC.load(Ordering::Relaxed);
        let v = match r {
            Ok(v) => v,
            Err(p) => {
                let msg = if let Some(s) = p.downcast_ref::<&str>() {
                    s.to_string()
                } else if let Some(s) = p.downcast_ref::<String>() {
                    s.clone()
                } else {
                    "?".to_string()
                };
                // after a panic the object may be half-updated: discard it
                w.last_poll = None;
                w.last_fetch = None;
                w.obj = Obj::None;
                if msg.starts_with("harness:") {
                    t("harness_error", vec![b(msg.as_bytes())])
                } else {
                    t("panic", vec![b(msg.as_bytes())])
                }
            }
        };
        emit(&t("result", vec![v, i(maxalloc as i128)]));
    }
}
