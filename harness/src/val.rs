//! The uniform value syntax shared by harness, model driver and python driver:
//!   val ::= INT | x<hex> | [ val* ] | ( NAME val* )
//! tokens are separated by whitespace; brackets are tokens of their own.

#[derive(Debug, Clone, PartialEq)]
pub enum Val {
    Int(i128),
    Bytes(Vec<u8>),
    List(Vec<Val>),
    Tag(String, Vec<Val>),
}

pub fn t(name: &str, args: Vec<Val>) -> Val {
    Val::Tag(name.to_string(), args)
}
pub fn i<T: Into<i128>>(n: T) -> Val {
    Val::Int(n.into())
}
pub fn b(bs: &[u8]) -> Val {
    Val::Bytes(bs.to_vec())
}
pub fn l(xs: Vec<Val>) -> Val {
    Val::List(xs)
}

impl Val {
    pub fn to_text(&self) -> String {
        let mut s = String::new();
        self.write(&mut s);
        s
    }
    fn write(&self, out: &mut String) {
        match self {
            Val::Int(n) => out.push_str(&n.to_string()),
            Val::Bytes(bs) => {
                out.push('x');
                for b in bs {
                    out.push_str(&format!("{:02x}", b));
                }
            }
            Val::List(xs) => {
                out.push('[');
                for x in xs {
                    out.push(' ');
                    x.write(out);
                }
                out.push_str(" ]");
            }
            Val::Tag(n, xs) => {
                out.push_str("( ");
                out.push_str(n);
                for x in xs {
                    out.push(' ');
                    x.write(out);
                }
                out.push_str(" )");
            }
        }
    }

    pub fn parse(text: &str) -> Result<Val, String> {
        let toks: Vec<&str> = text.split_whitespace().collect();
        let mut pos = 0;
        let v = parse_at(&toks, &mut pos)?;
        if pos != toks.len() {
            return Err(format!("trailing tokens at {}", pos));
        }
        Ok(v)
    }

    pub fn int(&self) -> i128 {
        match self {
            Val::Int(n) => *n,
            _ => panic!("harness: expected int, got {:?}", self),
        }
    }
    pub fn bytes(&self) -> &[u8] {
        match self {
            Val::Bytes(b) => b,
            _ => panic!("harness: expected bytes, got {:?}", self),
        }
    }
    pub fn string(&self) -> String {
        // topic names etc. are carried as bytes; non-UTF-8 is not expressible through the API
        String::from_utf8(self.bytes().to_vec()).expect("harness: utf8 string argument")
    }
    pub fn list(&self) -> &[Val] {
        match self {
            Val::List(xs) => xs,
            _ => panic!("harness: expected list, got {:?}", self),
        }
    }
    pub fn tag(&self) -> (&str, &[Val]) {
        match self {
            Val::Tag(n, xs) => (n, xs),
            _ => panic!("harness: expected tag, got {:?}", self),
        }
    }
}

fn parse_at(toks: &[&str], pos: &mut usize) -> Result<Val, String> {
    if *pos >= toks.len() {
        return Err("unexpected end".into());
    }
    let tok = toks[*pos];
    *pos += 1;
    match tok {
        "[" => {
            let mut xs = vec![];
            loop {
                if *pos >= toks.len() {
                    return Err("unterminated [".into());
                }
                if toks[*pos] == "]" {
                    *pos += 1;
                    return Ok(Val::List(xs));
                }
                xs.push(parse_at(toks, pos)?);
            }
        }
        "(" => {
            if *pos >= toks.len() {
                return Err("unterminated (".into());
            }
            let name = toks[*pos].to_string();
            *pos += 1;
            let mut xs = vec![];
            loop {
                if *pos >= toks.len() {
                    return Err("unterminated (".into());
                }
                if toks[*pos] == ")" {
                    *pos += 1;
                    return Ok(Val::Tag(name, xs));
                }
                xs.push(parse_at(toks, pos)?);
            }
        }
        _ => {
            if let Some(h) = tok.strip_prefix('x') {
                if h.len() % 2 != 0 {
                    return Err(format!("odd hex {}", tok));
                }
                let mut bs = Vec::with_capacity(h.len() / 2);
                for k in 0..h.len() / 2 {
                    bs.push(u8::from_str_radix(&h[2 * k..2 * k + 2], 16).map_err(|e| e.to_string())?);
                }
                Ok(Val::Bytes(bs))
            } else {
                tok.parse::<i128>().map(Val::Int).map_err(|e| format!("{}: {}", tok, e))
            }
        }
    }
}
